#!/usr/bin/env python3
"""Builds corpus/_small.json (entries whose templates are all <= 2500 bytes) from corpus/*.json.
The small file is what per-operation one-shot processes load (C01): decoding the whole corpus costs ~30 ms each time."""
import json, glob, os
root = os.path.join(os.path.dirname(os.path.abspath(__file__)), '..', 'corpus')
small = []
for f in sorted(glob.glob(os.path.join(root, '*.json'))):
    if os.path.basename(f).startswith('_'):
        continue
    for e in json.load(open(f)):
        if max(len(v) for v in e['templates'].values()) <= 2500 and len(json.dumps(e.get('context', {}))) <= 4000:
            small.append(e)
json.dump(small, open(os.path.join(root, '_small.json'), 'w'), ensure_ascii=False, separators=(',', ':'))
print(len(small), 'small entries')
