#!/usr/bin/env python3
"""Regenerates /verif/MANIFEST.json from the table below (kept next to the checks so the two stay in step)."""
import json, subprocess, os
V = os.path.dirname(os.path.dirname(os.path.abspath(__file__)))

def commits():
    try:
        out = subprocess.check_output(['git', '-C', '/repo', 'log', '--format=%H %s'], text=True)
    except Exception:
        return []
    return [l.split()[0] for l in out.splitlines() if l.split(' ', 1)[1].startswith('verif:')]

def _c(level, technique, text, note, ref):
    return (level, technique, text, note, ref)

CHECKS = {
 'C01': _c('exploration', 'pristine-process oracle over operation histories + node-tree fingerprint invariant + pool-alias scan after every operation',
   'Histories of 8-60 engine operations (renders, RenderTo incl. failing writers, failing renders, parses, re-registrations, new versions, cache/debug toggles, GCs, activity on other engines) run on 1-3 engines in one process; every render is compared with `vrun oneshot` (new process, new engine, same templates and configuration, one render). After each operation every cached template and parsed handle must have an unchanged fingerprint and no node reachable from them may sit in an object pool. Held on the histories of the run; interleavings of GC with pool state are sampled, not enumerated.',
   'trusted: hook VerifFingerprint / VerifPoolAliases (build tag verif), harness template-set generator; error texts are not compared', '4/C01'),
 'C02': _c('exploration', 'Go race detector (reports parsed and deduplicated by function pair) + fatal-exit watch + serial-equality of every call + harness-computed relative-name markers + porcupine linearizability of RegisterString/Render; yield injection at hook points',
   'Client scripts of 40-300 calls on one shared engine (2-32 goroutines, GOMAXPROCS 2-16, cache on/off/auto-reload, array / chain / file-system loaders, first-load storms released by a barrier); even schedules run in the -race build. Each independent call must equal the same call done alone on a fresh engine; relative includes/extends/imports must carry the sibling marker and never the other directory\'s; register/render histories are checked with porcupine against a per-name register. Held on the interleavings that occurred; a schedule tuple is reproducible, the interleaving is not.',
   'trusted: Go race detector, porcupine v1.3.0; monitor keeps no shared state in the measured region', '4/C02'),
 'C03': _c('exploration', 'metamorphic repeat-equality: 12 in-process renders with permuted map insertion order and fresh allocations + 4 renders in a second process',
   'All 16 outputs of a case must be byte-identical. Cases combine map loops, hash literals, first/keys/merge/join/json_encode on untyped, typed and nested maps, every PHP date letter in random format strings, and pointer printing. With >= 4 entries an order-dependent output survives 12 repetitions with probability <= 4^-11.',
   'errors count as outputs; TZ equal in both processes', '4/C03'),
 'C04': _c('exploration', 'by-construction expected bytes for alternating literal segments and tags; spies + non-interference for comment and verbatim bodies; exhaustive single-byte (and byte-pair, thorough) grids',
   'Every byte value before and after each tag kind is enumerated; random templates use arbitrary bytes (invalid UTF-8, NUL, lone delimiters, CR/LF) incl. sources above 4096 bytes; comment/verbatim bodies hold spies and context variables and are rendered under three contexts.',
   'segments never contain tag openers nor end in { or backslash before a tag', '4/C04'),
 'C05': _c('exploration', 'crash/hang sanitizer: recover + process-exit watch + per-case watchdog + canary render in isolated child processes',
   'Value-shape x construct grid (75 Go value shapes x ~740 constructs incl. every built-in filter with 20 argument sets) enumerated; exhaustive truncation and single-byte deletion of a 40-template corpus; pathological shapes; token/byte mutations and splices of generated programs; malformed compiled blobs. After every case a canary template must still render correctly on the same engine.',
   'statement exclusions applied syntactically (self-recursive macros skipped and counted); 20 s watchdog confirmed alone with 60 s', '4/C05'),
 'C06': _c('exploration', 'spy monitor + errors.As(*SecurityViolation) over the exhaustive position x route x kind x policy grid',
   '22 syntactic positions x 10 routes below the sandbox boundary x {filter, function} x 4 policies x 2 variants (3280 applicable points) run exhaustively: no forbidden spy call, a *SecurityViolation is returned, the allowed twin renders like the unsandboxed template, the includer keeps its permissions.',
   'macro calls are policed as functions (observed), macro names are allowed', '4/C06'),
 'C07': _c('exploration', 'independent HTML scanner/decoder over e/escape in 7 positions x 2 configurations; all BMP code points enumerated',
   'Every code point U+0000-U+FFFF alone and embedded, all pairs over specials and reference-forming characters, invalid UTF-8, 1 MiB inputs, non-string values; with the hook VerifUnregisterFilter the built-in fallback escaper runs the same grid.',
   'reference spelling not prescribed; text(v) of non-strings is what {{ v }} prints', '4/C07'),
 'C08': _c('exploration', 'reference-model monitor (typed AST evaluator + tick() evaluation trace) over generated expressions in 14 syntactic positions; operator pairs/triples enumerated',
   'Every generated expression tree is printed with minimal, full and random-superset parentheses, rendered once per printing on a fresh engine, and compared byte-for-byte (and tick trace for tick trace) with a reference evaluator that interprets the generator AST and never sees source text. Operator pairs are enumerated, triples sampled in quick and complete in thorough.',
   'trusted: harness/internal/mt (reference interpreter, printer); value domains restricted to what the statement defines', '4/C08'),
 'C09': _c('exploration', 'reference-model monitor over generated if/for/set programs; exhaustive truthiness, list-length, string and range grids',
   'Grids: 20 truthiness probes x 6 structures, literal conditions, list lengths 0-40, multi-byte strings, range(start,end,step) over [-6,6]^2 x 5 steps, set visibility; plus random nested programs.',
   'trusted: harness/internal/mt; no map loops, no float conditions, ranges only with a step towards end', '4/C09'),
 'C10': _c('exploration', 'reference-model monitor (block substitution along the extends chain); definitions enumerated for chains <= 3 (<= 4 thorough) + random chains up to 6',
   'Four base layouts (plain, nested blocks, block in loop, block in condition), three parent-name forms; per (level, block) absent / empty / text / text+parent() / parent() twice / variable / loop.',
   'trusted: harness/internal/mt; children define blocks at top level only', '4/C10'),
 'C11': _c('exploration', 'reference-model monitor with scope frames + probes after every include; option/placement grid run exhaustively',
   '16 option sets x 3 name forms x 4 placements x 3 targets x 3 overlap patterns (1728 points) + 60 cases showing that ignore missing only swallows not-found.',
   'trusted: harness/internal/mt; allow-all sandbox policy', '4/C11'),
 'C12': _c('exploration', 'reference-model monitor + cross-form agreement over the exhaustive (signature, defaults, argument count, body, call form, call site) grid for <= 3 parameters',
   '7900 grid points + random; a sample is re-rendered through the direct form to compare the macro bytes across call forms.',
   'trusted: harness/internal/mt; macro bodies read only parameters', '4/C12'),
 'C13': _c('exploration', 'metamorphic monitor: dashed template vs generator-trimmed template; all dash subsets for <= 10 delimiters, random subsets above',
   'Per-tag-kind corpus (21 entries) with every subset of dashed delimiters and random whitespace paddings, generated programs with random subsets, sources above 4096 bytes for the second tokenizer.',
   'text between tags is empty or has a non-blank core; comments are not dashed', '4/C13'),
 'C14': _c('exploration', 'metamorphic monitor: marker pads vs long literal/comment pads at the same insertion points',
   'Target lengths 4095/4096/4097, 8K, 20K+-1, 64K+-1 (100K+-1, 300K in thorough), pads that put a chosen tag exactly at offset 4095-4097, many small pads crossing token-count classes; with and without dashes.',
   'filler invariant under surrounding filters; never inside tags or verbatim bodies', '4/C14'),
 'C15': _c('exploration', 'online trace checker against an explicit cache/loader state machine; unique version markers; counting loaders; fingerprints around misses',
   'Histories of 10-80 steps over 3 names x 1-3 loaders (in-memory timestamp-aware / plain, FileSystemLoader, CompiledLoader with os.Chtimes) mixing configuration changes, three kinds of registration, loader edits and Load/Render/RenderTo; allowed outcome sets have two members exactly where the statement is silent.',
   'logical mtimes; registrations only with the cache on', '4/C15'),
 'C16': _c('exploration', 'round-trip equality on CompiledTemplate fields + metamorphic render equality source vs compiled (also through CompiledLoader files)',
   'Arbitrary name/source bytes incl. NUL and invalid UTF-8, sizes around 2^8 / 2^16 up to 1 MiB (16 MiB thorough), extreme timestamps; generated programs compiled, serialised, loaded into a second engine and rendered under three contexts.',
   'AST blob differences recorded, not judged; >= 4 GiB sources out of reach', '4/C16'),
 'C17': _c('fault_enumeration', 'record-then-inject: every callback invocation observed in a counting pass is failed once with a unique sentinel',
   'For each generated program pass 0 records the N invocations (filters, functions, tests, loader reads) that happen; passes 1..N fail invocation k and require err != nil, errors.Is/As to the sentinel and empty Render output. Render and RenderTo, debug off/on; plus unresolvable names in every wrapper position and the documented tolerances as converse. Exhaustive over the recorded invocations of every generated program.',
   'only invocations that really happen are injected; error text not inspected', '4/C17'),
 'C18': _c('exploration', 'deep snapshot diff (incl. spare slice capacity and unexported fields) + second-render equality + race detector as write detector on shared data',
   'Template bank (every built-in filter/function, two-filter chains, set of context names, loops with set, include/macro scopes, literals embedding caller containers) x contexts of typed/untyped slices with sentinel-filled spare capacity, arrays, maps, structs, pointers.',
   'races on engine state are C02\'s and ignored here', '4/C18'),
 'C19': _c('exploration', 'law monitors over one or two engine executions + reference slice index rules (exhaustive grid) + math/big.Rat for abs/round/number_format',
   'Exhaustive slice grid (sizes 0-7 x start, length in [-9,9] + omitted x 4 carriers = 12160 points); idempotence, reverse, sort, length/first/last vs loop, join/split, default, merge/keys and number laws on random inputs.',
   'one recorded known finding: multi-character split (pinned by the repository\'s own test suite)', '4/C19'),
 'C20': _c('exploration', 'reference by direct reflection over lookup histories with cache floods; attribute cache size through a hook; some histories from 8 goroutines under -race',
   'Family of 30 values (promoted fields one and two levels deep, embedded nil pointers, shadowing, unexported fields, value/pointer methods, typed/named/int-keyed maps) re-checked after each of 2-4 floods of 1200-2500 fresh StructOf (type, name) pairs with skewed access frequencies.',
   'pointer-receiver methods on values not asserted; members hold strings and ints', '4/C20'),
}

NOT_YET = {}

def main():
    props = [json.loads(l) for l in open(os.path.join(V, 'properties.jsonl'))]
    checks, na = [], []
    for p in props:
        pid = p['id']
        if pid in CHECKS:
            lvl, tech, text, note, ref = CHECKS[pid]
            checks.append({
                'property_id': pid,
                'quick_cmd': f'bin/check {pid} quick',
                'thorough_cmd': f'bin/check {pid} thorough',
                'evidence_file': f'/verif/evidence/{pid}.json',
                'replay_cmd_template': f'bin/check {pid} --replay {{path}}',
                'engine': 'vrun',
                'level_claimed': {'category': lvl, 'text': text, 'design_ref': 'DESIGN.md section ' + ref},
                'level_note': note,
                'technique': tech,
            })
        else:
            na.append({'property_id': pid, 'reason': NOT_YET.get(pid, 'monitor not built yet in this revision (runtime monitoring applies; see DESIGN.md section 4)')})
    m = {
        'version': 1,
        'setup_cmd': 'bin/setup',
        'hooks': {
            'guard': 'verif',
            'enable': 'go build -tags verif (the harness module replaces github.com/semihalev/twig with /repo, so hooks compile in from the working tree)',
            'baseline_off_cmd': 'bin/baseline',
            'source_commits': commits(),
            'add_only': True,
        },
        'engines': [{'name': 'vrun', 'path': 'harness/cmd/vrun', 'serves_properties': sorted(CHECKS), 'kind_free_text': 'Go runtime-monitoring harness: parent plans shards and merges, isolated child processes run the real engine under monitors (reference models, spies, fault injectors, race detector, snapshot diffs)'}],
        'checks': checks,
        'notes': 'All checks: exit 0 held / 1 VIOLATION / 2 check machinery broken or insufficient observation. VERIF_SEED selects the case lists. Known findings: known_findings.json.',
        'not_applicable': na,
    }
    json.dump(m, open(os.path.join(V, 'MANIFEST.json'), 'w'), indent=1)
    print('checks:', len(checks), 'not_applicable:', len(na))

main()
