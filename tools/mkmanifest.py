#!/usr/bin/env python3
"""Regenerates /verif/MANIFEST.json from the table below (kept next to the checks so the two stay in step)."""
import json, subprocess, os
V = os.path.dirname(os.path.dirname(os.path.abspath(__file__)))

def commits():
    try:
        out = subprocess.check_output(['git', '-C', '/repo', 'log', '--format=%H %s'], text=True)
    except Exception:
        return []
    return [l.split()[0] for l in out.splitlines() if l.split(' ', 1)[1].startswith('verif:')]

CHECKS = {
 'C08': ('exploration', 'reference-model monitor (typed AST evaluator + tick() evaluation trace) over generated expressions in 14 syntactic positions; operator pairs/triples enumerated',
         'Every generated expression tree is printed with minimal, full and random-superset parentheses, rendered once per printing on a fresh engine, and compared byte-for-byte (and tick trace for tick trace) with a reference evaluator that interprets the generator AST and never sees source text. Held on the enumerated operator pairs, the (sampled in quick, complete in thorough) operator triples and the random trees of the run; says nothing about trees not generated.',
         'trusted: harness/internal/mt (reference interpreter, printer); value domains restricted to what the statement defines (DESIGN 4/C08)', '4/C08'),
 'C09': ('exploration', 'reference-model monitor over generated if/for/set programs; exhaustive truthiness, list-length, string and range grids',
         'Programs are interpreted by the reference interpreter and rendered once on a fresh engine; outputs must be identical. Grids: 20 truthiness probes x 6 structures, literal conditions, list lengths 0-40, multi-byte strings, range(start,end,step) over [-6,6]^2 x 5 steps, set visibility; plus random nested programs.',
         'trusted: harness/internal/mt; no map loops, no float conditions, ranges only with a step towards end', '4/C09'),
 'C10': ('exploration', 'reference-model monitor (block substitution along the extends chain); assignments of block definitions enumerated for chains <= 3 (<= 4 thorough) + random chains up to 6',
         'For each chain the reference computes the substitution semantics (most derived definition, parent() = next definition down, empty override = nothing, text outside blocks dropped) and the engine must produce the same bytes; four base layouts (plain, nested blocks, block in loop, block in condition) and three parent-name forms.',
         'trusted: harness/internal/mt; children define blocks at top level only', '4/C10'),
 'C11': ('exploration', 'reference-model monitor with scope frames + probes after every include; option/placement grid run exhaustively',
         'All 16 option combinations x 3 name forms x 4 placements x 3 targets x 3 variable-overlap patterns (1728 points) are run; after each include the includer prints every variable, calls its own macro and renders its own block, so a leak in either direction changes bytes. 60 further cases check that ignore missing only swallows not-found.',
         'trusted: harness/internal/mt; allow-all sandbox policy', '4/C11'),
 'C12': ('exploration', 'reference-model monitor + cross-form agreement over the exhaustive (signature, defaults, argument count, body, call form, call site) grid for <= 3 parameters',
         '7900 grid points + random; each is checked against the reference binding rules and a sample is re-rendered through the direct form to compare the macro bytes across call forms.',
         'trusted: harness/internal/mt; macro bodies read only parameters', '4/C12'),
}

NOT_YET = {}

def main():
    props = [json.loads(l) for l in open(os.path.join(V, 'properties.jsonl'))]
    checks, na = [], []
    for p in props:
        pid = p['id']
        if pid in CHECKS:
            lvl, tech, text, note, ref = CHECKS[pid]
            checks.append({
                'property_id': pid,
                'quick_cmd': f'bin/check {pid} quick',
                'thorough_cmd': f'bin/check {pid} thorough',
                'evidence_file': f'/verif/evidence/{pid}.json',
                'replay_cmd_template': f'bin/check {pid} --replay {{path}}',
                'engine': 'vrun',
                'level_claimed': {'category': lvl, 'text': text, 'design_ref': 'DESIGN.md section ' + ref},
                'level_note': note,
                'technique': tech,
            })
        else:
            na.append({'property_id': pid, 'reason': NOT_YET.get(pid, 'monitor not built yet in this revision (runtime monitoring applies; see DESIGN.md section 4)')})
    m = {
        'version': 1,
        'setup_cmd': 'bin/setup',
        'hooks': {
            'guard': 'verif',
            'enable': 'go build -tags verif (the harness module replaces github.com/semihalev/twig with /repo, so hooks compile in from the working tree)',
            'baseline_off_cmd': 'bin/baseline',
            'source_commits': commits(),
            'add_only': True,
        },
        'engines': [{'name': 'vrun', 'path': 'harness/cmd/vrun', 'serves_properties': sorted(CHECKS), 'kind_free_text': 'Go runtime-monitoring harness: parent plans shards and merges, isolated child processes run the real engine under monitors (reference models, spies, fault injectors, race detector, snapshot diffs)'}],
        'checks': checks,
        'notes': 'All checks: exit 0 held / 1 VIOLATION / 2 check machinery broken or insufficient observation. VERIF_SEED selects the case lists. Known findings: known_findings.json.',
        'not_applicable': na,
    }
    json.dump(m, open(os.path.join(V, 'MANIFEST.json'), 'w'), indent=1)
    print('checks:', len(checks), 'not_applicable:', len(na))

main()
