#!/usr/bin/env python3
"""usage: keepseed.py <name> <property> <caught_by (comma list or 'none')> <result-line> [demo flags]
Copies /tmp/seed-out/<name>/{patch.diff,seed_demo_test.go,notes.md} to /verif/seeded/<name>/ and writes meta.json."""
import sys, os, shutil, json, re
name, prop, caught, result = sys.argv[1:5]
flags = sys.argv[5] if len(sys.argv) > 5 else ''
src = f'/tmp/seed-out/{name}'
dst = f'/verif/seeded/{name}'
os.makedirs(dst, exist_ok=True)
for f in ('patch.diff', 'seed_demo_test.go', 'notes.md'):
    if os.path.exists(os.path.join(src, f)):
        shutil.copy(os.path.join(src, f), dst)
notes = open(os.path.join(dst, 'notes.md')).read() if os.path.exists(os.path.join(dst, 'notes.md')) else ''
m = dict(re.findall(r'(\w+)=(\S+)', result))
meta = {
    'breaks_property': prop,
    'origin': 'independent sub-agent given only the property text and a scratch worktree',
    'needs_to_manifest': notes.strip()[:1500],
    'confirmed': {
        'applies_and_builds': True,
        'existing_suite_with_change': 'pass (365/365)' if m.get('suite') == '0' else 'FAIL',
        'demo_with_change': 'fails' if m.get('demo_with') != '0' else 'PASSES (unexpected)',
        'demo_without_change': 'passes' if m.get('demo_without') == '0' else 'FAILS (unexpected)',
        'how': f'bin/seedtest {name} {prop} quick {flags}'.strip() + '  (scratch worktree of /repo HEAD, removed afterwards)',
    },
    'caught_by': [] if caught == 'none' else [caught],
    'check_exit': int(m.get('check_exit', -1)),
}
json.dump(meta, open(os.path.join(dst, 'meta.json'), 'w'), indent=1)
print('kept', dst, meta['caught_by'])
