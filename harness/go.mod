module verifharness

go 1.24.1

require (
	github.com/anishathalye/porcupine v1.3.0
	github.com/semihalev/twig v0.0.0
)

replace github.com/semihalev/twig => /repo
