// vrun is both the parent (plans shards, spawns children, merges, decides) and the
// child (executes cases against the real engine in an isolated process).
package main

import (
	"bufio"
	"encoding/json"
	"flag"
	"fmt"
	"os"
	"os/exec"
	"path/filepath"
	"regexp"
	"runtime"
	"runtime/debug"
	"sort"
	"strconv"
	"strings"
	"sync"
	"syscall"
	"time"

	"verifharness/internal/core"
	"verifharness/internal/props"
)

func main() {
	if len(os.Args) < 2 {
		fmt.Fprintln(os.Stderr, "usage: vrun check|child|replay|oneshot ...")
		os.Exit(2)
	}
	switch os.Args[1] {
	case "check":
		os.Exit(parent(os.Args[2:]))
	case "child":
		child(os.Args[2:])
	case "replay":
		guardResources("replay")
		os.Exit(replay(os.Args[2:]))
	case "oneshot":
		guardResources("oneshot")
		props.Oneshot(os.Args[2:])
	case "list":
		for _, id := range props.IDs() {
			p := props.Get(id)
			fmt.Printf("%s quick=%d thorough=%d\n", id, p.NumCases("quick"), p.NumCases("thorough"))
		}
	default:
		fmt.Fprintln(os.Stderr, "unknown subcommand", os.Args[1])
		os.Exit(2)
	}
}

// guardResources: the sandbox has no memory limit; a replayed runaway case must end this process, not the machine.
func guardResources(what string) {
	debug.SetMaxStack(96 << 20)
	go func() {
		var ms runtime.MemStats
		for {
			time.Sleep(300 * time.Millisecond)
			runtime.ReadMemStats(&ms)
			if ms.HeapAlloc+ms.StackInuse > 3<<30 {
				fmt.Printf("%s: memory watchdog: heap grew beyond 3 GiB (runaway case reproduced)\n", what)
				os.Exit(4)
			}
		}
	}()
}

func verifDir() string {
	if d := os.Getenv("VERIF_DIR"); d != "" {
		return d
	}
	return "/verif"
}

func seedFromEnv() uint64 {
	if s := os.Getenv("VERIF_SEED"); s != "" {
		if n, err := strconv.ParseUint(s, 10, 64); err == nil {
			return n
		}
		if n, err := strconv.ParseInt(s, 10, 64); err == nil {
			return uint64(n)
		}
	}
	return 1
}

// ---------------------------------------------------------------- child

type childLine struct {
	T   string         `json:"t"`
	I   int            `json:"i,omitempty"`
	Rec *core.Recorder `json:"rec,omitempty"`
	D   string         `json:"d,omitempty"`
}

var goroutineHead = regexp.MustCompile(`^goroutine \d+ \[([^\]]*)\]:`)

// deadlockSignature reads a dump of all goroutines taken when a case ran into its watchdog. It answers with an
// excerpt when the dump shows the engine deadlocked: at least one goroutine inside the engine has been waiting on a
// lock (sync.Mutex, sync.RWMutex, sync.Cond, sync.WaitGroup: a "sync." or "semacquire" wait state) for a minute or
// more, and no goroutine with engine frames is doing anything else (running, runnable, or waiting for something that
// is not a lock). The runtime itself measures the waits (the "N minutes" in the goroutine header).
func deadlockSignature(dump string) string {
	stuck, busy := 0, 0
	first := ""
	for _, g := range strings.Split(dump, "\n\n") {
		g = strings.TrimSpace(g)
		m := goroutineHead.FindStringSubmatch(g)
		if m == nil || !strings.Contains(g, "github.com/semihalev/twig.") {
			continue
		}
		state := m[1]
		lock := strings.HasPrefix(state, "sync.") || strings.HasPrefix(state, "semacquire")
		if lock && strings.Contains(state, "minutes") {
			stuck++
			if first == "" {
				first = g
			}
		} else if !lock {
			busy++
		}
	}
	if stuck > 0 && busy == 0 {
		return fmt.Sprintf("%d goroutine(s) inside the engine waiting on a lock for a minute or more, none doing anything else; the first:\n%s", stuck, core.Trunc(first, 3000))
	}
	return ""
}

func child(args []string) {
	fs := flag.NewFlagSet("child", flag.ExitOnError)
	id := fs.String("prop", "", "")
	tier := fs.String("tier", "quick", "")
	seed := fs.Uint64("seed", 1, "")
	shard := fs.Int("shard", 0, "")
	n := fs.Int("n", 1, "")
	out := fs.String("out", "", "")
	skip := fs.String("skip", "", "")
	only := fs.Int("only", -1, "")
	mode := fs.String("mode", "plain", "")
	tmo := fs.Int("timeout", 60, "")
	fs.Parse(args)
	p := props.Get(*id)
	if p == nil {
		fmt.Fprintln(os.Stderr, "unknown property", *id)
		os.Exit(2)
	}
	// fail fast on runaway recursion instead of growing the stack to the 1 GB default
	debug.SetMaxStack(96 << 20)
	f, err := os.OpenFile(*out, os.O_CREATE|os.O_WRONLY|os.O_TRUNC, 0o644)
	if err != nil {
		fmt.Fprintln(os.Stderr, err)
		os.Exit(2)
	}
	w := bufio.NewWriter(f)
	var emitMu sync.Mutex
	emit := func(l childLine) {
		emitMu.Lock()
		defer emitMu.Unlock()
		b, _ := json.Marshal(l)
		w.Write(b)
		w.WriteByte('\n')
		w.Flush()
	}
	skipSet := map[int]bool{}
	for _, s := range strings.Split(*skip, ",") {
		if s != "" {
			k, _ := strconv.Atoi(s)
			skipSet[k] = true
		}
	}
	rp, isRace := p.(props.RaceProp)
	rec := core.NewRecorder(*id, *seed, *tier)
	// memory watchdog: the sandbox has no memory limit, so a runaway case must not take the machine down
	go func() {
		var ms runtime.MemStats
		for {
			time.Sleep(300 * time.Millisecond)
			runtime.ReadMemStats(&ms)
			if ms.HeapAlloc+ms.StackInuse > 3<<30 {
				emit(childLine{T: "oom", I: rec.CurIdx})
				// where the runaway case is: the stacks (truncated per goroutine by the runtime) go to stderr for the parent
				buf := make([]byte, 4<<20)
				os.Stderr.Write(buf[:runtime.Stack(buf, true)])
				os.Exit(4)
			}
		}
	}()
	total := p.NumCases(*tier)
	runOne := func(idx int) {
		rec.CurIdx = idx
		emit(childLine{T: "begin", I: idx})
		done := make(chan struct{})
		go func() {
			defer close(done)
			panicked, site, val, stack := core.Guard(func() { p.Run(rec, *seed, idx, *tier) })
			if panicked {
				// a panic that escaped the property's own guards
				if site == "unknown" {
					rec.HarnessFault("harness panic in case %d: %s\n%s", idx, val, core.Trunc(stack, 1500))
				} else {
					rec.Violate("panic", "panic@"+site, "engine panicked: "+core.Trunc(val, 200), map[string]any{"index": idx}, stack)
				}
			}
		}()
		select {
		case <-done:
		case <-time.After(time.Duration(*tmo) * time.Second):
			emit(childLine{T: "hang", I: idx})
			{
				buf := make([]byte, 16<<20)
				if sig := deadlockSignature(string(buf[:runtime.Stack(buf, true)])); sig != "" {
					emit(childLine{T: "deadlock", I: idx, D: sig})
				}
			}
			// dump goroutines for the record
			syscall.Kill(os.Getpid(), syscall.SIGQUIT)
			time.Sleep(2 * time.Second)
			os.Exit(3)
		}
	}
	if *only >= 0 {
		runOne(*only)
	} else {
		for idx := *shard; idx < total; idx += *n {
			if skipSet[idx] {
				continue
			}
			if isRace {
				if rp.RaceCase(idx, *tier) != (*mode == "race") {
					continue
				}
			}
			runOne(idx)
		}
	}
	rec.Finish()
	emit(childLine{T: "summary", Rec: rec})
	f.Close()
}

// ---------------------------------------------------------------- parent

type shardResult struct {
	rec       *core.Recorder
	crashes   []crashInfo
	hangs     []int
	deadlocks map[int]string
	raceLogs  []string
	watchdog  bool
	gaveUp    bool
	childErrs []string
}

type crashInfo struct {
	idx    int
	stderr string
	exit   string
	oom    bool
}

// readDeadlocks: the cases of a child's output whose watchdog dump showed the engine deadlocked
func readDeadlocks(path string, into map[int]string) {
	f, err := os.Open(path)
	if err != nil {
		return
	}
	defer f.Close()
	sc := bufio.NewScanner(f)
	sc.Buffer(make([]byte, 1<<20), 1<<30)
	for sc.Scan() {
		var l childLine
		if json.Unmarshal(sc.Bytes(), &l) == nil && l.T == "deadlock" {
			into[l.I] = l.D
		}
	}
}

func readChildOut(path string) (summary *core.Recorder, lastBegin int, hang int, oom int) {
	lastBegin, hang, oom = -1, -1, -1
	f, err := os.Open(path)
	if err != nil {
		return
	}
	defer f.Close()
	sc := bufio.NewScanner(f)
	sc.Buffer(make([]byte, 1<<20), 1<<30)
	for sc.Scan() {
		var l childLine
		if json.Unmarshal(sc.Bytes(), &l) != nil {
			continue
		}
		switch l.T {
		case "begin":
			lastBegin = l.I
		case "hang":
			hang = l.I
		case "oom":
			oom = l.I
		case "summary":
			summary = l.Rec
		}
	}
	return
}

func tail(path string, n int) string {
	b, err := os.ReadFile(path)
	if err != nil {
		return ""
	}
	if len(b) > n {
		b = b[len(b)-n:]
	}
	return string(b)
}

func head(path string, n int) string {
	b, err := os.ReadFile(path)
	if err != nil {
		return ""
	}
	if len(b) > n {
		b = b[:n]
	}
	return string(b)
}

func runShard(bin, id, tier string, seed uint64, shard, n int, mode, tmpdir string, caseTimeout int, wall time.Duration) *shardResult {
	res := &shardResult{}
	var skips []string
	deadline := time.Now().Add(wall)
	for attempt := 0; attempt < 5; attempt++ {
		tag := fmt.Sprintf("%s-%s-%d", mode, tier, shard)
		out := filepath.Join(tmpdir, tag+".jsonl")
		errf := filepath.Join(tmpdir, tag+".err")
		racePrefix := filepath.Join(tmpdir, tag+".race")
		os.Remove(out)
		args := []string{"child", "-prop", id, "-tier", tier, "-seed", fmt.Sprint(seed), "-shard", fmt.Sprint(shard),
			"-n", fmt.Sprint(n), "-out", out, "-skip", strings.Join(skips, ","), "-mode", mode, "-timeout", fmt.Sprint(caseTimeout)}
		cmd := exec.Command(bin, args...)
		ef, _ := os.Create(errf)
		cmd.Stderr = ef
		cmd.Stdout = ef
		cmd.Env = append(os.Environ(), "GOTRACEBACK=all")
		if mode == "race" {
			old, _ := filepath.Glob(racePrefix + ".*")
			for _, o := range old {
				os.Remove(o)
			}
			cmd.Env = append(cmd.Env, "GORACE=halt_on_error=0 history_size=3 log_path="+racePrefix)
		}
		if err := cmd.Start(); err != nil {
			res.childErrs = append(res.childErrs, err.Error())
			ef.Close()
			return res
		}
		done := make(chan error, 1)
		go func() { done <- cmd.Wait() }()
		var werr error
		timedOut := false
		select {
		case werr = <-done:
		case <-time.After(time.Until(deadline)):
			timedOut = true
			cmd.Process.Signal(syscall.SIGQUIT)
			select {
			case werr = <-done:
			case <-time.After(5 * time.Second):
				cmd.Process.Kill()
				werr = <-done
			}
		}
		ef.Close()
		if mode == "race" {
			logs, _ := filepath.Glob(racePrefix + ".*")
			for _, l := range logs {
				b, _ := os.ReadFile(l)
				res.raceLogs = append(res.raceLogs, string(b))
			}
		}
		summary, lastBegin, hang, oom := readChildOut(out)
		if res.deadlocks == nil {
			res.deadlocks = map[int]string{}
		}
		readDeadlocks(out, res.deadlocks)
		if summary != nil {
			// (the race detector makes the process exit with status 66 after a complete run)
			res.rec = summary
			return res
		}
		if timedOut {
			res.watchdog = true
			return res
		}
		if hang >= 0 {
			res.hangs = append(res.hangs, hang)
			skips = append(skips, fmt.Sprint(hang))
			continue
		}
		if oom >= 0 {
			res.crashes = append(res.crashes, crashInfo{idx: oom, stderr: "memory watchdog: heap grew beyond 3 GiB while running this case\n" + head(errf, 12000), exit: "killed by the harness memory watchdog", oom: true})
			skips = append(skips, fmt.Sprint(oom))
			continue
		}
		if lastBegin >= 0 {
			res.crashes = append(res.crashes, crashInfo{idx: lastBegin, stderr: head(errf, 12000), exit: fmt.Sprint(werr)})
			skips = append(skips, fmt.Sprint(lastBegin))
			continue
		}
		res.childErrs = append(res.childErrs, fmt.Sprintf("child died before first case: %v: %s", werr, tail(errf, 2000)))
		return res
	}
	res.gaveUp = true
	return res
}

var raceSplit = regexp.MustCompile(`(?m)^==================\n`)

func splitRaceReports(log string) []string {
	var out []string
	for _, part := range raceSplit.Split(log, -1) {
		if strings.Contains(part, "WARNING: DATA RACE") {
			out = append(out, part)
		}
	}
	return out
}

type evidence struct {
	PropertyID  string         `json:"property_id"`
	Tier        string         `json:"tier"`
	Seed        int64          `json:"seed"`
	Level       string         `json:"level"`
	Coverage    map[string]any `json:"coverage"`
	Assumptions []string       `json:"assumptions"`
	WallS       float64        `json:"wall_s"`
	Violations  int            `json:"violations"`
}

func parent(args []string) int {
	if len(args) < 2 {
		fmt.Fprintln(os.Stderr, "usage: vrun check <ID> <quick|thorough>")
		return 2
	}
	id, tier := args[0], args[1]
	p := props.Get(id)
	if p == nil {
		fmt.Fprintln(os.Stderr, "ERROR unknown property", id)
		return 2
	}
	start := time.Now()
	seed := seedFromEnv()
	vd := verifDir()
	// (bin/check builds into a directory of its own per invocation, so that two checks running at the same time - a seeded
	// change being validated next to a plain run - never start each other's children)
	binDir := filepath.Join(vd, ".build")
	if d := os.Getenv("VERIF_BIN_DIR"); d != "" {
		binDir = d
	}
	binPlain := filepath.Join(binDir, "vrun")
	binRace := filepath.Join(binDir, "vrun-race")
	tmpdir := filepath.Join(vd, "evidence", "tmp", id)
	replayDir := filepath.Join(vd, "evidence", "replay")
	if os.Getenv("VERIF_REPO") != "" && os.Getenv("VERIF_BIN_DIR") != "" {
		// a run against another checkout (a seeded change under validation) keeps its scratch files and replay files with its
		// binaries, away from those of a plain run of the same property that may be going on at the same time
		tmpdir = filepath.Join(binDir, "tmp")
		replayDir = filepath.Join(binDir, "replay")
	}
	os.RemoveAll(tmpdir)
	os.MkdirAll(tmpdir, 0o755)
	if old, _ := filepath.Glob(filepath.Join(replayDir, id+"-*")); len(old) > 0 {
		for _, o := range old {
			os.Remove(o)
		}
	}
	os.MkdirAll(replayDir, 0o755)

	total := p.NumCases(tier)
	nsh := 16
	if total < 64 {
		nsh = (total + 3) / 4
		if nsh < 1 {
			nsh = 1
		}
	}
	caseTimeout := 120
	if t, ok := p.(props.Tuner); ok {
		if s := t.Shards(tier); s > 0 {
			nsh = s
		}
		if c := t.CaseTimeoutSec(tier); c > 0 {
			caseTimeout = c
		}
	}
	wall := 25 * time.Minute
	if tier == "thorough" {
		wall = 6 * time.Hour
	}
	_, isRace := p.(props.RaceProp)
	type job struct {
		bin, mode string
		shard     int
	}
	var jobs []job
	for k := 0; k < nsh; k++ {
		jobs = append(jobs, job{binPlain, "plain", k})
	}
	if isRace {
		for k := 0; k < nsh; k++ {
			jobs = append(jobs, job{binRace, "race", k})
		}
	}
	results := make([]*shardResult, len(jobs))
	sem := make(chan struct{}, 16)
	var wg sync.WaitGroup
	for i, j := range jobs {
		wg.Add(1)
		go func(i int, j job) {
			defer wg.Done()
			sem <- struct{}{}
			defer func() { <-sem }()
			results[i] = runShard(j.bin, id, tier, seed, j.shard, nsh, j.mode, tmpdir, caseTimeout, wall)
		}(i, j)
	}
	wg.Wait()

	// ---- merge
	merged := core.NewRecorder(id, seed, tier)
	hashes := map[uint64]struct{}{}
	var viols []core.Violation
	violCount := 0
	hangsConfirmed := 0
	deadlocksReported := 0
	broken := []string{}
	rp, _ := p.(props.RaceProp)
	hp, _ := p.(props.HangProp)
	raceSeen := map[string]int{}
	harnessRaces := 0
	for i, r := range results {
		j := jobs[i]
		if r == nil {
			broken = append(broken, "nil shard result")
			continue
		}
		for _, e := range r.childErrs {
			broken = append(broken, e)
		}
		if r.watchdog {
			merged.Inconc("shard %s/%d exceeded the wall-clock watchdog", j.mode, j.shard)
		}
		if r.gaveUp {
			merged.Inconc("shard %s/%d gave up after repeated child deaths", j.mode, j.shard)
		}
		for _, c := range r.crashes {
			site := core.PanicSite(c.stderr)
			kind := "fatal"
			if c.oom {
				kind, site = "runaway-memory", core.DominantSite(c.stderr)
			}
			first := strings.SplitN(strings.TrimSpace(c.stderr), "\n", 2)[0]
			v := core.Violation{Prop: id, Monitor: "process-death", Sig: kind + "@" + site,
				What: "child process died while running the case: " + core.Trunc(first, 200) + " (" + c.exit + ")",
				Seed: seed, Index: c.idx, Tier: tier, Detail: core.Trunc(c.stderr, 6000)}
			viols = append(viols, v)
			violCount++
		}
		for _, h := range r.hangs {
			if dl := r.deadlocks[h]; dl != "" && hp != nil && hp.HangIsViolation() {
				// the dump taken at the watchdog shows the engine deadlocked: nothing to confirm
				if deadlocksReported < 6 {
					deadlocksReported++
					viols = append(viols, core.Violation{Prop: id, Monitor: "deadlock", Sig: "deadlock",
						What:   fmt.Sprintf("case did not terminate within %d s: goroutines inside the engine wait on its locks and none makes progress", caseTimeout),
						Detail: dl, Seed: seed, Index: h, Tier: tier})
					violCount++
				}
				continue
			}
			if hp != nil && hp.HangIsViolation() && hangsConfirmed < 6 {
				// confirm alone, with three times the limit (at most 150 s: alone, on an otherwise idle machine, a case that
				// has not finished by then is not coming back). Six confirmations are enough to report; further hangs count as inconclusive.
				hangsConfirmed++
				confirm := caseTimeout * 3
				if confirm > 150 {
					confirm = 150
				}
				out := filepath.Join(tmpdir, fmt.Sprintf("hang-%d.jsonl", h))
				cmd := exec.Command(j.bin, "child", "-prop", id, "-tier", tier, "-seed", fmt.Sprint(seed), "-only", fmt.Sprint(h),
					"-out", out, "-timeout", fmt.Sprint(confirm))
				cmd.Run()
				_, _, hang2, _ := readChildOut(out)
				if hang2 >= 0 {
					viols = append(viols, core.Violation{Prop: id, Monitor: "hang", Sig: fmt.Sprintf("hang:%d", h),
						What: fmt.Sprintf("case did not terminate within %d s (confirmed alone with %d s)", caseTimeout, confirm),
						Seed: seed, Index: h, Tier: tier})
					violCount++
				} else {
					merged.Inconc("case %d exceeded %d s once but finished when run alone", h, caseTimeout)
				}
			} else {
				merged.Inconc("case %d exceeded the %d s per-case watchdog", h, caseTimeout)
			}
		}
		if rp != nil {
			for _, log := range r.raceLogs {
				for _, rep := range splitRaceReports(log) {
					sig, isV, why := rp.ClassifyRace(rep)
					raceSeen[sig]++
					if !isV {
						if why == "harness" {
							harnessRaces++
							if harnessRaces <= 3 {
								broken = append(broken, "race inside harness frames: "+core.Trunc(rep, 1500))
							}
						}
						continue
					}
					if raceSeen[sig] <= 1 {
						viols = append(viols, core.Violation{Prop: id, Monitor: "race-detector", Sig: sig, What: why,
							Seed: seed, Index: j.shard, Tier: tier, Detail: core.Trunc(rep, 6000),
							Case: map[string]any{"shard": j.shard, "shards": nsh, "mode": "race"}})
					}
					violCount++
				}
			}
		}
		if r.rec == nil {
			continue
		}
		merged.Evals += r.rec.Evals
		for _, h := range r.rec.Hashes {
			hashes[h] = struct{}{}
		}
		for k, v := range r.rec.Counters {
			if strings.HasPrefix(k, "max:") {
				if v > merged.Counters[k] {
					merged.Counters[k] = v
				}
			} else {
				merged.Counters[k] += v
			}
		}
		for k, v := range r.rec.Notes {
			merged.Notes[k] = v
		}
		for cls, ss := range r.rec.Samples {
			for _, s := range ss {
				if len(merged.Samples[cls]) < 2 {
					merged.Samples[cls] = append(merged.Samples[cls], s)
				}
			}
		}
		broken = append(broken, r.rec.Broken...)
		viols = append(viols, r.rec.Violations...)
		violCount += r.rec.ViolCount
		for _, s := range r.rec.Inconclusive {
			merged.Inconc("%s", s)
		}
	}
	if rp != nil {
		for sig, n := range raceSeen {
			merged.Counters["race-report:"+sig] = n
		}
	}

	// ---- verdicts
	findings, ferr := core.LoadFindings(filepath.Join(vd, "known_findings.json"))
	if ferr != nil {
		broken = append(broken, "known_findings.json: "+ferr.Error())
	}
	sort.SliceStable(viols, func(a, b int) bool { return viols[a].Sig < viols[b].Sig })
	printedKnown := map[string]bool{}
	printedViol := map[string]bool{}
	unlisted := 0
	knownHit := 0
	for _, v := range viols {
		if k := core.Known(findings, id, v.Sig); k != nil {
			knownHit++
			if !printedKnown[v.Sig] {
				printedKnown[v.Sig] = true
				fmt.Printf("KNOWN-FINDING: property=%s %s [%s]\n", id, k.What, v.Sig)
			}
			continue
		}
		unlisted++
		if printedViol[v.Sig] {
			continue
		}
		printedViol[v.Sig] = true
		name := strings.NewReplacer(":", "-", "/", "_", "@", "-", "|", "_", " ", "_", "*", "", "(", "", ")", "").Replace(v.Sig)
		if len(name) > 80 {
			name = name[:80]
		}
		rpath := filepath.Join(replayDir, id+"-"+name+".json")
		b, _ := json.MarshalIndent(v, "", " ")
		os.WriteFile(rpath, b, 0o644)
		fmt.Printf("VIOLATION property=%s replay=%s\n", id, rpath)
		fmt.Printf("  monitor=%s sig=%s\n  %s\n", v.Monitor, v.Sig, core.Trunc(v.What, 600))
	}
	for i, s := range merged.Inconclusive {
		if i < 10 {
			fmt.Printf("INCONCLUSIVE property=%s %s\n", id, s)
		}
	}

	// ---- evidence
	samples := []any{}
	var classes []string
	for c := range merged.Samples {
		classes = append(classes, c)
	}
	sort.Strings(classes)
	for _, c := range classes {
		for _, s := range merged.Samples[c] {
			if len(samples) < 24 {
				samples = append(samples, map[string]any{"class": c, "case": s})
			}
		}
	}
	counters := map[string]int{}
	for k, v := range merged.Counters {
		counters[k] = v
	}
	cov := map[string]any{
		"evaluations":         merged.Evals,
		"distinct_nontrivial": len(hashes),
		"rule":                p.Rule(),
		"samples":             samples,
		"observed":            counters,
		"cases_planned":       total,
		"shards":              nsh,
		"inconclusive":        merged.Inconclusive,
		"known_findings_hit":  knownHit,
		"technique":           p.Technique(),
	}
	if len(merged.Notes) > 0 {
		cov["notes"] = merged.Notes
	}
	ev := evidence{PropertyID: id, Tier: tier, Seed: int64(seed), Level: p.Level(), Coverage: cov,
		Assumptions: p.Assumptions(), WallS: time.Since(start).Seconds(), Violations: unlisted}
	eb, _ := json.MarshalIndent(ev, "", " ")
	if os.Getenv("VERIF_NO_EVIDENCE") == "" {
		os.WriteFile(filepath.Join(vd, "evidence", id+".json"), eb, 0o644)
	}

	fmt.Printf("SUMMARY property=%s tier=%s seed=%d evaluations=%d distinct_nontrivial=%d violations=%d known=%d inconclusive=%d wall=%.1fs\n",
		id, tier, seed, merged.Evals, len(hashes), unlisted, knownHit, len(merged.Inconclusive), time.Since(start).Seconds())

	if unlisted > 0 {
		return 1
	}
	if len(broken) > 0 {
		for _, b := range broken {
			fmt.Printf("ERROR check machinery: %s\n", core.Trunc(b, 2000))
		}
		return 2
	}
	if len(hashes) < p.MinDistinct(tier) || merged.Evals == 0 {
		fmt.Printf("ERROR insufficient observation: %d distinct non-trivial cases < %d required\n", len(hashes), p.MinDistinct(tier))
		return 2
	}
	if rq, ok := p.(props.Required); ok {
		for _, k := range rq.RequiredCounters(tier) {
			if merged.Counters[k] == 0 {
				fmt.Printf("ERROR insufficient observation: monitor counter %q stayed at 0\n", k)
				return 2
			}
		}
	}
	return 0
}

// ---------------------------------------------------------------- replay

func replay(args []string) int {
	if len(args) < 1 {
		fmt.Fprintln(os.Stderr, "usage: vrun replay <file>")
		return 2
	}
	b, err := os.ReadFile(args[0])
	if err != nil {
		fmt.Fprintln(os.Stderr, err)
		return 2
	}
	var v core.Violation
	if err := json.Unmarshal(b, &v); err != nil {
		fmt.Fprintln(os.Stderr, err)
		return 2
	}
	p := props.Get(v.Prop)
	if p == nil {
		fmt.Fprintln(os.Stderr, "unknown property", v.Prop)
		return 2
	}
	rec := core.NewRecorder(v.Prop, v.Seed, v.Tier)
	rec.CurIdx = v.Index
	panicked, site, val, stack := core.Guard(func() { p.Run(rec, v.Seed, v.Index, v.Tier) })
	if panicked {
		rec.Violate("panic", "panic@"+site, val, nil, stack)
	}
	hit := false
	for _, w := range rec.Violations {
		mark := " "
		if w.Sig == v.Sig {
			mark = "*"
			hit = true
		}
		fmt.Printf("%s VIOLATION property=%s sig=%s\n   %s\n", mark, w.Prop, w.Sig, core.Trunc(w.What, 1500))
		if w.Case != nil {
			cb, _ := json.MarshalIndent(w.Case, "   ", " ")
			fmt.Printf("   case: %s\n", core.Trunc(string(cb), 4000))
		}
	}
	if len(rec.Violations) == 0 {
		fmt.Println("replay: no violation reproduced (property held on this case)")
		return 0
	}
	if !hit {
		fmt.Println("replay: violations seen, but not the recorded signature")
	}
	return 1
}
