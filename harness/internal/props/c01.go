package props

import (
	"bytes"
	"encoding/json"
	"errors"
	"fmt"
	"io"
	"os"
	"os/exec"
	"runtime"
	"strconv"
	"strings"

	"github.com/semihalev/twig"

	"verifharness/internal/core"
	"verifharness/internal/mt"
)

// C01 — rendering is repeatable and independent of history.
type c01 struct{ base }

func init() {
	p := &c01{base{
		id: "C01", level: "exploration",
		technique: "pristine-process oracle over operation histories (every render compared with a fresh engine in a fresh process) + node-tree fingerprint invariant + pool-alias scan (pooled-object use-after-release sanitizer) after every operation",
		rule: "case = history of 8-60 engine operations (register, parse, render, RenderTo incl. failing writers, failing renders, re-registration, cache/debug toggles, GCs, activity on other engines) over 1-3 engines sharing the process; " +
			"every render's (bytes | error-ness) is compared with `vrun oneshot` = new process, new engine, same templates and configuration, one render. After every operation each cached template's fingerprint must be unchanged and no node reachable from a cached template may sit in a pool. " +
			"Non-trivial: the history renders some template at least twice with at least one other operation in between. Distinct = distinct history (seed, index).",
		assumptions: []string{
			"no construct whose output is legitimately history-dependent (random(), now, map iteration)",
			"error messages are not compared, only error-vs-output; RenderTo with a failing writer: only error-ness",
			"sources change only through RegisterString together with the loader entry, so every path agrees on the current source (C15 owns cache/loader policy)",
			"pool scan runs single-goroutine with GOMAXPROCS(1) so that sync.Pool per-P slots are drained completely",
		},
		quick: 1200, thorough: 12000, minQuick: 400, minThorough: 5000,
	}}
	Register(p)
	oneshots["C01"] = p.oneshot
}

func (p *c01) Shards(tier string) int         { return 16 }
func (p *c01) CaseTimeoutSec(tier string) int { return 90 }
func (p *c01) RequiredCounters(string) []string {
	return []string{"renders-compared", "fingerprint-checks", "pool-scans"}
}

type c01Op struct {
	Kind   string // render renderTo renderToFail parse handleRender load badRender reregister newVersion setCache setDebugOther gc otherActivity repeatRender
	Eng    int
	Name   string
	CtxK   int
	N      int
	Src    string
	Handle int
}

type c01Engine struct {
	srcs  map[string]string
	cache bool
	debug bool
	idx   int // position among the engines of the history: decides how the security policy is set up
}

// ctx: the generated context, overlaid with the context of the corpus entry that takes part in this history (the same in
// the shared process and in the pristine one)
func (h *c01History) ctx(k int) map[string]interface{} {
	m := h.ts.GoCtxVariant(k)
	if h.wild != nil {
		for n, v := range h.wild.Ctx(nil) {
			m[n] = v
		}
	}
	return m
}

type c01History struct {
	wild    *WildEntry
	ts      *TSet
	srcs    map[string]string
	ops     []c01Op
	nEng    int
	handles []string // sources parsed via ParseTemplate
	hEng    []int    // engine each handle was parsed on
}

var c01BadTemplates = map[string]string{
	"bad_filter":  "before {{ s|no_such_filter }} after",
	"bad_div":     "x{{ a / 0 }}y",
	"bad_include": "x{% include 'does_not_exist' %}y",
	"bad_func":    "x{{ boom(1) }}y",
	"bad_parent":  "{% extends 'base' %}{% block title %}{{ boom(2) }}{% endblock %}",
	"bad_macro":   "{% import 'lib' as l %}{{ l.nomacro() }}",
	"bad_with":    "x{% include 'part' with {'pv': boom(3)} %}y{% include 'part' %}",
	"bad_withdiv": "{% for i in [1, 2] %}{% include 'part' with {'pv': i / 0} only %}{% endfor %}",
	"bad_only":    "{% include 'part' with {'pv': nosuchfunction()} only %}",
}

// c01Twins: groups of small self-contained templates that differ in one detail a lossy memo key could drop (regex flags,
// format strings, separators, argument lists). Rendering the members of a group in varying orders, on one or several
// engines, makes any process-wide cache keyed too coarsely visible as history dependence.
var c01Twins = [][]string{
	{"{% set t = 'ABC-42' %}{{ t matches '/^[a-z]+-[0-9]+$/' ? 'm' : 'n' }}", "{% set t = 'ABC-42' %}{{ t matches '/^[a-z]+-[0-9]+$/i' ? 'm' : 'n' }}"},
	{"{{ 'abc' matches '/B/' ? 1 : 0 }}", "{{ 'abc' matches '/B/i' ? 1 : 0 }}", "{{ 'abc' matches '/b/' ? 1 : 0 }}", "{{ 'a.c' matches '/a.c/' ? 1 : 0 }}{{ 'abc' matches '/a\\.c/' ? 1 : 0 }}"},
	{"{{ '2024-03-05 14:07:09'|date('Y-m-d') }}", "{{ '2024-03-05 14:07:09'|date('d.m.Y H:i') }}", "{{ '2024-03-05 14:07:09'|date('D, d M y') }}", "{{ '2023-12-31 23:59:59'|date('Y-m-d') }}"},
	{"{{ 1234.567|number_format(2) }}", "{{ 1234.567|number_format(2, ',', '.') }}", "{{ 1234.567|number_format(0) }}", "{{ 1234.567|number_format(2, '.', ' ') }}"},
	{"{{ 'a, b,c'|split(',')|join('|') }}", "{{ 'a, b,c'|split(', ')|join('|') }}", "{{ 'a, b,c'|split(',', 2)|join('|') }}"},
	{"[{{ '  xx  '|trim }}]", "[{{ 'xx__'|trim('_') }}]", "[{{ '__xx__'|trim('_') }}]"},
	{"{{ '%05d'|format(42) }}", "{{ '%5d'|format(42) }}", "{{ '%s-%s'|format('a', 'b') }}"},
	{"{{ 'Hello'|replace({'l': 'L'}) }}", "{{ 'Hello'|replace({'l': 'x'}) }}", "{{ 'Hello'|replace({'H': 'L'}) }}"},
	{"{{ [3, 1, 2]|sort|join }}", "{{ [3, 1, 2]|sort|reverse|join }}", "{{ [3, 1, 2]|reverse|join }}", "{{ ['b', 'a']|sort|join }}"},
	{"{{ 2.5|round }}", "{{ 2.5|round(0, 'floor') }}", "{{ 2.45|round(1) }}", "{{ 2.45|round(1, 'ceil') }}"},
	{"{{ nope|default('d1') }}", "{{ nope|default('d2') }}", "{{ ''|default('d1') }}", "{{ 'v'|default('d1') }}"},
	{"{{ range(1, 5)|join(',') }}", "{{ range(1, 5, 2)|join(',') }}", "{{ range(5, 1)|join(',') }}"},
	{"{{ 'a-b-c'|split('-')|first }}", "{{ 'a-b-c'|split('-')|last }}", "{{ 'a-b-c'|first }}", "{{ 'a-b-c'|last }}"},
	{"{{ 'abcdef'|slice(1) }}", "{{ 'abcdef'|slice(1, 1) }}", "{{ 'abcdef'|slice(-2) }}", "{{ [1, 2, 3]|slice(1)|join }}"},
	{"{{ {'a': 1, 'b': 2}|keys|join }}", "{{ {'b': 2, 'a': 1}|keys|join }}", "{{ {'a': 1, 'b': 2}|length }}", "{{ {'a': 1}|merge({'c': 3})|keys|join }}"},
	{"{{ 'x' in ['x', 'y'] ? 1 : 0 }}", "{{ 'x' in 'xyz' ? 1 : 0 }}", "{{ 'z' in ['x', 'y'] ? 1 : 0 }}"},
	{"{{ cycle(['a', 'b'], 1) }}", "{{ cycle(['a', 'b', 'c'], 1) }}", "{{ cycle(['a', 'b'], 2) }}"},
	{"{{ 'é'|upper }}{{ 'ABC'|lower }}", "{{ 'É'|lower }}{{ 'abc'|upper }}", "{{ 'hello world'|title }}", "{{ 'hello world'|capitalize }}"},
	{"{{ 'a<b'|escape }}", "{{ 'a<b'|e }}", "{{ 'a<b'|raw }}", "{{ 'a<b' }}"},
	{"{{ 10 > 9 ? 'y' : 'n' }}", "{{ '10' > '9' ? 'y' : 'n' }}", "{{ 10 > '9' ? 'y' : 'n' }}"},
	{"{{ max(1, 5, 3) }}", "{{ min(1, 5, 3) }}", "{{ max([1, 5, 3]) }}"},
	{"{{ 'a b'|url_encode }}", "{{ 'a&b'|url_encode }}", "{{ 'a b'|nl2br }}", "{{ 'a\nb'|nl2br }}"},
	{"{{ [1, 'a', null]|json_encode }}", "{{ {'k': [1, 2]}|json_encode }}", "{{ 'q\"'|json_encode }}"},
	{"{{ 'tag <b>x</b>'|striptags }}", "{{ 'tag <i>y</i>'|striptags }}", "{{ '<b>x</b>'|length }}"},
	// a sandboxed include followed by plain renders that use filters outside the policy (per-render flags left in pooled objects)
	{"[{% include 'sbx_part' sandboxed %}]", "{{ 'a b'|url_encode }}{{ [3, 1]|sort|join }}", "[{% include 'sbx_part' sandboxed %}]{{ 'x y'|url_encode }}", "{{ 'q'|upper }}{{ max(1, 2) }}"},
	// what is learnt about a type from one value must not be applied to another value of that type
	{"{{ linkTail }}", "{{ linkHead }}", "{{ links|join('|') }}", "{{ [linkTail, linkHead]|join('|') }}", "{{ linkHead.Next.Name }}{{ linkTail.Next }}", "{{ links }}"},
	// sandboxed includes of partials that only some engines' policies allow
	{"[{% include 'sbx_url' sandboxed %}]", "[{% include 'sbx_strip' sandboxed %}]", "[{% include 'sbx_upper' sandboxed %}]", "[{% include 'sbx_part' sandboxed %}]{{ 'a b'|url_encode }}", "{{ '<i>y</i>'|striptags }}{{ 'q'|upper }}"},
	// names that differ only in letter case, or share a prefix / a length (string tables, interning, case folding)
	{"{% set seedQty = 'MIXED' %}{% set seedqty = 'lower' %}[{{ seedqty }}]", "{% set seedQty = 'MIXED' %}{% set seedqty = 'lower' %}[{{ seedQty }}]", "{% set SEEDQTY = 'UPPER' %}[{{ SEEDQTY }}{{ seedqty }}]"},
	{"{% macro Row(x) %}<R{{ x }}>{% endmacro %}{% macro row(x) %}<r{{ x }}>{% endmacro %}{{ row(1) }}", "{% macro Row(x) %}<R{{ x }}>{% endmacro %}{% macro row(x) %}<r{{ x }}>{% endmacro %}{{ Row(1) }}", "{% macro ROW(x) %}<ROW{{ x }}>{% endmacro %}{{ ROW(1) }}"},
	{"{{ {'Key': 'K', 'key': 'k'}.key }}", "{{ {'Key': 'K', 'key': 'k'}.Key }}", "{{ {'KEY': 'KK'}.KEY }}{{ {'KEY': 'KK'}.key }}"},
	{"{{ 'Abc' }}{{ 'abc' }}", "{{ 'abc' }}{{ 'Abc' }}", "{{ 'ABC'|lower }}{{ 'abc'|upper }}", "{{ 'abc' == 'Abc' ? 'same' : 'differ' }}"},
	{"{% set abcdefghij = 1 %}{% set abcdefghik = 2 %}{{ abcdefghij }}{{ abcdefghik }}", "{% set abcdefghik = 3 %}{{ abcdefghik }}{{ abcdefghij }}", "{% set abcdefghijabcdefghijabcdefghij1 = 'L1' %}{% set abcdefghijabcdefghijabcdefghij2 = 'L2' %}{{ abcdefghijabcdefghijabcdefghij1 }}{{ abcdefghijabcdefghijabcdefghij2 }}"},
	{"{% if true %}T{% endif %}{% set True = 'var' %}{{ True }}", "{% set TRUE = 'VAR' %}{{ TRUE }}{{ true ? 1 : 0 }}", "{% set Null = 'n' %}{{ Null }}{{ null is null ? 'nn' : 'x' }}", "{% set If = 'i' %}{{ If }}"},
	{"{% block Main %}M{% endblock %}{% block main %}m{% endblock %}", "{% block main %}m2{% endblock %}", "{% block MAIN %}M3{% endblock %}"},
	// engine globals that are Go collections (part of the engine's configuration): a render that reorders or extends one
	// in place changes what every later render on that engine sees
	{"{{ gints|sort|join(',') }}", "{{ gints|join(';') }}", "{{ gints|reverse|join(',') }}", "{{ gints|first }}{{ gints|last }}", "{{ gints|merge([1])|join(',') }}|{{ gints|length }}"},
	{"{{ gstrs|sort|join(',') }}", "{{ gstrs|join(';') }}", "{{ gstrs|reverse|join(',') }}", "{{ gfl|sort|join(',') }}", "{{ gfl|join(';') }}", "{{ gstrs|slice(1)|merge(['z'])|join }}|{{ gstrs|length }}"},
	{"{{ glist|sort|join(',') }}", "{{ glist|join(';') }}", "{{ glist|reverse|join(',') }}", "{{ glist|merge([9])|join(',') }}", "{{ glist|slice(0, 2)|merge([8])|join(',') }}|{{ glist|join }}", "{% set glist = glist|merge([7]) %}{{ glist|join }}"},
	// a global that differs from engine to engine
	{"{{ engineId }}", "<{{ engineId }}>{% include 'sbx_part' sandboxed %}", "{{ engineId|lower }}{{ 'q'|upper }}", "{% include 'part' %}{{ engineId }}"},
	// one struct type that some templates meet as a value and others through a pointer, with methods on either receiver:
	// what the process remembers about (type, name) must not depend on which of the two it met first
	{"{{ acctV.Greeting }}|{{ acctV.Name }}", "{{ acctP.Greeting }}|{{ acctP.Name }}", "{{ acctV.Label }}", "{{ acctP.Label }}|{{ acctP.Greeting }}", "{% for a in accts %}{{ a.Greeting }}{{ a.Label }};{% endfor %}", "{% for a in acctPs %}{{ a.Greeting }}{{ a.Label }};{% endfor %}"},
	{"{{ gmap|keys|join(',') }}", "{{ gmap|merge({'z': 26})|keys|join(',') }}", "{{ gmap.list|sort|join }}|{{ gmap.list|join }}", "{{ gmap.list|join }}", "{% for k, v in gmap %}{{ k }};{% endfor %}", "{{ gmap|json_encode }}"},
	// a sandboxed include whose partial includes another one (the sandboxed context opens a child context), followed by plain
	// includes two levels deep whose innermost template uses filters outside the policy (a flag left in a pooled context and
	// handed on to the contexts cloned from it)
	{"[{% include 'sbx_nest' sandboxed %}]", "{% include 'plain_outer' %}", "[{% include 'sbx_nest' sandboxed %}]{% include 'plain_mid' %}", "{% include 'plain_outer' %}{{ 'x y'|url_encode }}", "<{% include 'plain_mid' %}>"},
}

func (p *c01) gen(seed uint64, idx int) *c01History {
	r := core.NewRand("C01", seed, idx)
	h := &c01History{ts: GenTSet(r.Fork(), fmt.Sprintf("h%d·", idx))}
	h.srcs = (&mt.Printer{}).SourceSet(h.ts.Set)
	for k, v := range c01BadTemplates {
		h.srcs[k] = v
	}
	h.srcs["sbx_part"] = "{{ 'Part'|lower }}"
	h.srcs["sbx_nest"] = "{% include 'sbx_part' %}{{ 'N'|lower }}{% include 'sbx_part' %}"
	h.srcs["plain_outer"] = "<{% include 'plain_mid' %}>"
	h.srcs["plain_mid"] = "({% include 'plain_in' %})"
	h.srcs["plain_in"] = "{{ 'a b'|url_encode }}{{ [3, 1]|sort|join }}"
	h.srcs["sbx_url"] = "{{ 'a b'|url_encode }}"
	h.srcs["sbx_strip"] = "{{ '<b>x</b>'|striptags }}{{ max(1, 2) }}"
	h.srcs["sbx_upper"] = "{{ 'up'|upper }}"
	if r.P(1, 6) {
		// a long template so that the second tokenizer and interning are in play
		h.srcs["plain"] = strings.Repeat("<p>filler text with a few words</p>\n", 140) + h.srcs["plain"]
	}
	h.nEng = r.Range(1, 3)
	n := r.Range(8, 60)
	entries := append([]string{}, h.ts.Entries...)
	// one or two entries of the independently written corpus (those whose template names are free)
	for tries := 0; tries < 6 && h.wild == nil && idx%3 == 0; tries++ {
		we, ok := wildPickSmall(r)
		if !ok {
			break
		}
		free := true
		for n, src0 := range we.Templates {
			if _, taken := h.srcs[n]; taken || len(src0) > 2500 {
				free = false
			}
		}
		if !free {
			continue
		}
		for n, src := range we.Templates {
			h.srcs[n] = src
		}
		for w := 0; w < 3; w++ {
			entries = append(entries, we.Render)
		}
		wcopy := we
		h.wild = &wcopy
	}
	for g := 0; g < 5; g++ {
		gi := r.Intn(len(c01Twins))
		for mi, src := range c01Twins[gi] {
			name := fmt.Sprintf("twin%d_%d", gi, mi)
			if _, dup := h.srcs[name]; !dup {
				h.srcs[name] = src
				entries = append(entries, name)
			}
		}
	}
	h.srcs["optinc"] = "[{% include 'late_opt' ignore missing %}|{% include 'part' ignore missing %}]"
	lateOpt := false
	lateEng := map[string]int{}
	bads := sortedKeys(c01BadTemplates)
	cacheOn := make([]bool, h.nEng)
	for i := range cacheOn {
		cacheOn[i] = true
	}
	for i := 0; i < n; i++ {
		op := c01Op{Eng: r.Intn(h.nEng), CtxK: r.Intn(3)}
		switch k := r.Intn(30); {
		case k < 8:
			op.Kind, op.Name = "render", entries[r.Intn(len(entries))]
		case k < 10:
			op.Kind, op.Name, op.N = "repeatRender", entries[r.Intn(len(entries))], []int{2, 3, 5}[r.Intn(3)]
		case k < 12:
			op.Kind, op.Name = "renderTo", entries[r.Intn(len(entries))]
		case k < 13:
			op.Kind, op.Name, op.N = "renderToFail", entries[r.Intn(len(entries))], r.Range(0, 40)
		case k < 15:
			op.Kind, op.Name = "badRender", bads[r.Intn(len(bads))]
		case k < 16:
			op.Kind, op.Name = "load", entries[r.Intn(len(entries))]
		case k < 17:
			op.Kind = "parse"
			op.Src = h.srcs[entries[r.Intn(len(entries))]]
			if r.P(1, 3) {
				op.Src = "{% if %}broken"
			}
			if !strings.HasPrefix(op.Src, "{% if %}") && !strings.Contains(op.Src, "extends") {
				h.handles = append(h.handles, op.Src)
				h.hEng = append(h.hEng, op.Eng)
				op.Handle = len(h.handles) - 1
			} else {
				op.Handle = -1
			}
		case k < 18:
			if len(h.handles) > 0 {
				op.Kind, op.Handle = "handleRender", r.Intn(len(h.handles))
				op.Eng = h.hEng[op.Handle] // a parsed template belongs to the engine that parsed it
			} else {
				op.Kind, op.Name = "render", entries[r.Intn(len(entries))]
			}
		case k < 19:
			op.Kind, op.Name = "reregister", entries[r.Intn(len(entries))]
		case k < 20:
			if cacheOn[op.Eng] {
				op.Kind, op.Name, op.N = "newVersion", []string{"part", "plain", "lib"}[r.Intn(3)], i
			} else {
				// with the cache off a registration is not stored; which source then counts is C15's question
				op.Kind, op.Name = "render", entries[r.Intn(len(entries))]
			}
		case k < 21:
			op.Kind, op.N = "setCache", r.Intn(2)
			cacheOn[op.Eng] = op.N == 1
		case k < 22:
			op.Kind, op.N = "setDebugOther", r.Intn(2)
		case k < 23:
			op.Kind, op.N = "gc", r.Range(1, 3)
		case k < 24:
			op.Kind, op.N = "otherActivity", r.Intn(4)
		case k < 26:
			// the timestamped document is loaded (and its template object also registered on another engine), then its
			// modification time moves on and it is loaded again: the engine replaces its cached template; the template it
			// handed out before stays whole
			op.Kind, op.Name = "tsReload", "tsdoc"
		case k >= 28:
			// a name no loader has is asked for (directly, and through an optional include), then the engine's loader gets a
			// template of that name: from then on the name is what the loader says it is
			op.Kind, op.Name = "lateAppears", fmt.Sprintf("late%d", i)
			if !lateOpt {
				op.Name, lateOpt = "late_opt", true
			}
			op.Src = fmt.Sprintf("LATE%d<{{ engineId }}>", i)
			entries = append(entries, op.Name, "optinc")
			lateEng[op.Name] = op.Eng
		default:
			// a template object of this engine (a parsed handle, or the cached template of a name) is also registered on
			// another engine under a name nothing uses: this engine's renders of it are none of that engine's business
			op.Kind, op.Name, op.Handle = "shareTemplate", entries[r.Intn(len(entries))], -1
			if len(h.handles) > 0 && r.Bool() {
				op.Handle = r.Intn(len(h.handles))
				op.Eng = h.hEng[op.Handle]
			}
		}
		if eng, late := lateEng[op.Name]; late && eng != op.Eng && op.Kind != "lateAppears" {
			// (a name that appeared on one engine means nothing to the others)
			op.Name = "optinc"
		}
		h.ops = append(h.ops, op)
	}
	return h
}

func newVersionSrc(name string, old string, n int) string {
	switch name {
	case "lib":
		return old + fmt.Sprintf("{# v%d #}", n)
	}
	return old + fmt.Sprintf("⟪v%d⟫", n)
}

// state replays the bookkeeping of the history up to (not including) op k.
func (h *c01History) state(k int) []*c01Engine {
	engs := make([]*c01Engine, h.nEng)
	for i := range engs {
		engs[i] = &c01Engine{srcs: map[string]string{}, cache: true, idx: i}
		for n, s := range h.srcs {
			engs[i].srcs[n] = s
		}
	}
	for i := 0; i < k && i < len(h.ops); i++ {
		op := h.ops[i]
		e := engs[op.Eng]
		switch op.Kind {
		case "newVersion":
			e.srcs[op.Name] = newVersionSrc(op.Name, e.srcs[op.Name], op.N)
		case "lateAppears":
			e.srcs[op.Name] = op.Src
		case "setCache":
			e.cache = op.N == 1
		case "setDebugOther":
			if h.nEng > 1 {
				engs[(op.Eng+1)%h.nEng].debug = op.N == 1
			}
		}
	}
	return engs
}

func c01Boom(args ...interface{}) (interface{}, error) { return nil, errSentinel }

// c01TsLoader is a timestamp-aware in-memory loader with one document whose modification time the history moves forward
// (its source stays what it is, so a reload changes nothing that a render can see)
type c01TsLoader struct {
	src   map[string]string
	mtime map[string]int64
}

func (l *c01TsLoader) Load(name string) (string, error) {
	if s, ok := l.src[name]; ok {
		return s, nil
	}
	return "", fmt.Errorf("%w: %s", twig.ErrTemplateNotFound, name)
}
func (l *c01TsLoader) Exists(name string) bool { _, ok := l.src[name]; return ok }
func (l *c01TsLoader) GetModifiedTime(name string) (int64, error) {
	if t, ok := l.mtime[name]; ok {
		return t, nil
	}
	return 0, fmt.Errorf("%w: %s", twig.ErrTemplateNotFound, name)
}

var c01TsLoaders = map[*twig.Engine]*c01TsLoader{}

func c01NewEngine(st *c01Engine) (*twig.Engine, *twig.ArrayLoader) {
	e := twig.New()
	ts := &c01TsLoader{src: map[string]string{"tsdoc": "TS[{{ engineId }}|{% include 'part' %}|{{ 'q'|upper }}]"}, mtime: map[string]int64{"tsdoc": 100}}
	c01TsLoaders[e] = ts
	defer func() {
		e.RegisterLoader(ts)
		// (one engine in three reloads by timestamp; the others keep the default: what is cached stays)
		e.SetAutoReload(st.idx == 1)
	}()
	cp := map[string]string{}
	for k, v := range st.srcs {
		cp[k] = v
	}
	l := twig.NewArrayLoader(cp)
	e.RegisterLoader(l)
	e.AddFunction("boom", c01Boom)
	// globals that are Go collections, fresh for every engine
	e.AddGlobal("gints", []int{7, 3, 5})
	e.AddGlobal("gstrs", []string{"b", "a", "c"})
	e.AddGlobal("gfl", []float64{2.5, 1.5, 3.5})
	e.AddGlobal("glist", append(make([]interface{}, 0, 8), 3, 1, 2))
	e.AddGlobal("gmap", map[string]interface{}{"b": 2, "a": 1, "list": []interface{}{"y", "x"}})
	// values of one struct type whose pointer field is nil in one and set in the other
	tail := c01Link{Name: "tail"}
	e.AddGlobal("linkTail", tail)
	e.AddGlobal("linkHead", c01Link{Name: "head", Next: &c01Link{Name: "mid", Next: &tail}})
	e.AddGlobal("links", []c01Link{tail, {Name: "h2", Next: &tail}})
	e.AddGlobal("engineId", fmt.Sprintf("E%d", st.idx))
	e.AddGlobal("acctV", c01Acct{Name: "Ann"})
	e.AddGlobal("acctP", &c01Acct{Name: "Bob"})
	e.AddGlobal("accts", []c01Acct{{Name: "c"}, {Name: "d"}})
	e.AddGlobal("acctPs", []*c01Acct{{Name: "e"}, {Name: "f"}})
	// every engine has a security policy (it only matters inside `include ... sandboxed`)
	// (engine 0 extends the default policy in place, the way the documentation shows; engine 1 uses the default policy
	// as it comes; engine 2 replaces the allow-lists: what one engine allows is no other engine's business)
	pol := twig.NewDefaultSecurityPolicy()
	switch st.idx {
	case 0:
		pol.AllowedFilters["url_encode"] = true
		pol.AllowedFilters["striptags"] = true
		pol.AllowedFunctions["boom"] = true
		delete(pol.AllowedFilters, "upper")
	case 1:
	default:
		pol.AllowedFilters = map[string]bool{"lower": true, "escape": true}
		pol.AllowedFunctions = map[string]bool{}
	}
	e.EnableSandbox(pol)
	e.SetCache(st.cache)
	if st.debug {
		e.SetDebug(true)
	}
	return e, l
}

type c01Out struct {
	Out string `json:"out"`
	Err bool   `json:"err"`
	Msg string `json:"msg,omitempty"`
}

// oneshot: `vrun oneshot C01 <seed> <idx> <opIndex> [sub]` — fresh process, fresh engine, one render.
func (p *c01) oneshot(args []string) {
	twig.SetDebugWriter(io.Discard)
	seed, _ := strconv.ParseUint(args[0], 10, 64)
	idx, _ := strconv.Atoi(args[1])
	k, _ := strconv.Atoi(args[2])
	h := p.gen(seed, idx)
	op := h.ops[k]
	st := h.state(k)[op.Eng]
	e, _ := c01NewEngine(st)
	var out c01Out
	switch op.Kind {
	case "handleRender":
		t, err := e.ParseTemplate(h.handles[op.Handle])
		if err != nil {
			out.Err, out.Msg = true, err.Error()
		} else {
			s, err := t.Render(h.ctx(op.CtxK))
			out.Out, out.Err = s, err != nil
			if err != nil {
				out.Msg = err.Error()
			}
		}
	case "renderTo", "renderToFail":
		var buf bytes.Buffer
		err := e.RenderTo(&buf, op.Name, h.ctx(op.CtxK))
		out.Out, out.Err = buf.String(), err != nil
	default:
		s, err := e.Render(op.Name, h.ctx(op.CtxK))
		out.Out, out.Err = s, err != nil
		if err != nil {
			out.Msg = err.Error()
		}
	}
	b, _ := json.Marshal(out)
	os.Stdout.Write(b)
}

var c01Memo = map[string]c01Out{}

func (p *c01) pristine(rec *core.Recorder, seed uint64, idx, k int) (c01Out, bool) {
	exe, err := os.Executable()
	if err != nil {
		return c01Out{}, false
	}
	cmd := exec.Command(exe, "oneshot", "C01", fmt.Sprint(seed), fmt.Sprint(idx), fmt.Sprint(k))
	var stderr bytes.Buffer
	cmd.Stderr = &stderr
	b, err := cmd.Output()
	var o c01Out
	if err != nil || json.Unmarshal(b, &o) != nil {
		rec.Inconc("pristine one-shot process failed for history %d op %d: %v %s", idx, k, err, core.Trunc(stderr.String(), 300))
		return o, false
	}
	rec.Count("pristine-processes", 1)
	return o, true
}

func firstDiff(a, b string) int {
	i := 0
	for i < len(a) && i < len(b) && a[i] == b[i] {
		i++
	}
	return i
}

type failWriter struct{ left int }

func (f *failWriter) Write(b []byte) (int, error) {
	if len(b) > f.left {
		n := f.left
		f.left = 0
		return n, errors.New("verif: writer full")
	}
	f.left -= len(b)
	return len(b), nil
}

type c01Link struct {
	Name string
	Next *c01Link
}

type c01Acct struct{ Name string }

func (a *c01Acct) Greeting() string { return "hello " + a.Name }
func (a c01Acct) Label() string     { return "<" + a.Name + ">" }

type c01Struct struct {
	Name  string
	Count int
	Inner struct{ Deep string }
}

func (p *c01) Run(rec *core.Recorder, seed uint64, idx int, tier string) {
	twig.SetDebugWriter(io.Discard)
	prev := runtime.GOMAXPROCS(1)
	defer runtime.GOMAXPROCS(prev)
	h := p.gen(seed, idx)
	states := h.state(0)
	engines := make([]*twig.Engine, h.nEng)
	loaders := make([]*twig.ArrayLoader, h.nEng)
	for i := range engines {
		engines[i], loaders[i] = c01NewEngine(states[i])
	}
	handles := make([]*twig.Template, len(h.handles))
	// fingerprints of cached templates, per engine and name, taken when first seen / after (re)registration
	fps := make([]map[string]string, h.nEng)
	for i := range fps {
		fps[i] = map[string]string{}
	}
	handleFp := map[int]string{}
	renderedNames := map[string]int{}
	nontrivial := false
	opsBetween := 0
	describe := func(k int) string {
		var b strings.Builder
		for i := 0; i <= k && i < len(h.ops); i++ {
			o := h.ops[i]
			fmt.Fprintf(&b, "%d:%s(e%d %s ctx%d n%d) ", i, o.Kind, o.Eng, o.Name, o.CtxK, o.N)
		}
		return b.String()
	}
	caseInfo := func(k int) map[string]any {
		return map[string]any{"history": describe(k), "engines": h.nEng, "op": k, "templates": h.state(k)[h.ops[k].Eng].srcs}
	}

	invariants := func(k int, changed map[string]bool, eng int) bool {
		ok := true
		for ei, e := range engines {
			for _, name := range e.VerifCachedNames() {
				t := e.VerifCached(name)
				fp := twig.VerifFingerprint(t)
				key := name
				old, seen := fps[ei][key]
				if !seen || (ei == eng && changed[name]) {
					fps[ei][key] = fp
					continue
				}
				rec.Count("fingerprint-checks", 1)
				if old != fp {
					// a reload / re-registration by the engine itself is legitimate only for `changed` names
					rec.Violate("fingerprint", fmt.Sprintf("fingerprint:%s", h.ops[k].Kind),
						fmt.Sprintf("cached template %q of engine %d was altered by operation %d (%s); node tree differs from byte %d: before …%s… after …%s…", name, ei, k, h.ops[k].Kind, firstDiff(old, fp), core.Trunc(old[max(0, firstDiff(old, fp)-80):], 240), core.Trunc(fp[max(0, min(len(fp), firstDiff(old, fp))-80):], 240)),
						caseInfo(k), "")
					fps[ei][key] = fp
					ok = false
				}
			}
		}
		for hi, t := range handles {
			if t == nil {
				continue
			}
			fp := twig.VerifFingerprint(t)
			if old, seen := handleFp[hi]; seen {
				rec.Count("fingerprint-checks", 1)
				if old != fp {
					rec.Violate("fingerprint", fmt.Sprintf("fingerprint-handle:%s", h.ops[k].Kind),
						fmt.Sprintf("parsed template handle %d was altered by operation %d (%s)", hi, k, h.ops[k].Kind), caseInfo(k), "")
					handleFp[hi] = fp
					ok = false
				}
			} else {
				handleFp[hi] = fp
			}
		}
		aliases, inspected := twig.VerifPoolAliases(engines, handles)
		rec.Count("pool-scans", 1)
		rec.Count("pool-objects-inspected", inspected)
		if len(aliases) > 0 {
			rec.Violate("pool-alias", "pool-alias:"+strings.SplitN(aliases[0], " ", 2)[0],
				fmt.Sprintf("after operation %d (%s) a node still reachable from a live template sits in an object pool: %s", k, h.ops[k].Kind, strings.Join(aliases[:min(len(aliases), 4)], "; ")),
				caseInfo(k), "")
			ok = false
		}
		return ok
	}

	compare := func(k int, got c01Out, onlyErr bool) {
		want, ok := p.pristine(rec, seed, idx, k)
		if !ok {
			return
		}
		rec.Count("renders-compared", 1)
		op := h.ops[k]
		if got.Err != want.Err || (!onlyErr && !got.Err && got.Out != want.Out) {
			rec.Violate("pristine-process", "history-dependence:"+op.Kind,
				fmt.Sprintf("operation %d (%s %q on engine %d) gave %s err=%v (%s); a fresh engine in a fresh process gives %s err=%v (%s)", k, op.Kind, op.Name, op.Eng,
					core.Q(core.Trunc(got.Out, 200)), got.Err, core.Trunc(got.Msg, 150), core.Q(core.Trunc(want.Out, 200)), want.Err, core.Trunc(want.Msg, 150)),
				caseInfo(k), "")
		}
	}

	for k, op := range h.ops {
		e := engines[op.Eng]
		changed := map[string]bool{}
		ctx := h.ctx(op.CtxK)
		rec.Count("op:"+op.Kind, 1)
		switch op.Kind {
		case "render", "badRender":
			s, err := e.Render(op.Name, ctx)
			o := c01Out{Out: s, Err: err != nil}
			if err != nil {
				o.Msg = err.Error()
			}
			compare(k, o, false)
			if renderedNames[op.Name] > 0 && opsBetween > 0 {
				nontrivial = true
			}
			renderedNames[op.Name]++
		case "repeatRender":
			for i := 0; i < op.N; i++ {
				s, err := e.Render(op.Name, ctx)
				o := c01Out{Out: s, Err: err != nil}
				if i == 0 || i == op.N-1 {
					compare(k, o, false)
				} else if err != nil {
					compare(k, o, false)
				}
			}
			nontrivial = true
			renderedNames[op.Name]++
		case "renderTo":
			var buf bytes.Buffer
			err := e.RenderTo(&buf, op.Name, ctx)
			compare(k, c01Out{Out: buf.String(), Err: err != nil}, false)
			renderedNames[op.Name]++
		case "renderToFail":
			fw := &failWriter{left: op.N}
			err := e.RenderTo(fw, op.Name, ctx)
			// a writer that accepts fewer bytes than the output must make the call fail
			want, ok := p.pristine(rec, seed, idx, k)
			if ok && !want.Err && len(want.Out) > op.N && err == nil {
				rec.Violate("writer-error", "writer-error-swallowed", fmt.Sprintf("RenderTo returned nil although the writer failed after %d of %d bytes", op.N, len(want.Out)), caseInfo(k), "")
			}
		case "load":
			_, err := e.Load(op.Name)
			if err != nil {
				rec.Violate("load", "load-failed", fmt.Sprintf("Load(%q) failed in history: %v", op.Name, err), caseInfo(k), "")
			}
		case "parse":
			t, err := e.ParseTemplate(op.Src)
			if op.Handle >= 0 {
				if err != nil {
					rec.Violate("parse", "parse-failed", fmt.Sprintf("ParseTemplate of a valid source failed in history: %v", err), caseInfo(k), "")
				}
				handles[op.Handle] = t
			}
		case "handleRender":
			if t := handles[op.Handle]; t != nil {
				s, err := t.Render(ctx)
				o := c01Out{Out: s, Err: err != nil}
				if err != nil {
					o.Msg = err.Error()
				}
				compare(k, o, false)
			}
		case "lateAppears":
			e.Render(op.Name, ctx) // not there yet
			e.Render("optinc", ctx)
			loaders[op.Eng].SetTemplate(op.Name, op.Src)
			for _, n := range e.VerifCachedNames() {
				changed[n] = true // (what included the name while it was missing is stale by design, like after newVersion)
			}
			rec.Count("names-that-appear-later", 1)
		case "tsReload":
			if ts := c01TsLoaders[e]; ts != nil && e.IsCacheEnabled() {
				if t, err := e.Load("tsdoc"); err == nil && t != nil {
					if h.nEng > 1 {
						engines[(op.Eng+1)%h.nEng].RegisterTemplate(fmt.Sprintf("ts_alias_%d", k), t)
					}
					handles = append(handles, t) // the scan after the operation treats it as a template somebody still holds
					held := twig.VerifFingerprint(t)
					ts.mtime["tsdoc"]++
					if _, err := e.Load("tsdoc"); err != nil {
						rec.Violate("load", "load-failed", fmt.Sprintf("Load(tsdoc) failed after its modification time moved on: %v", err), caseInfo(k), "")
					}
					if now := twig.VerifFingerprint(t); now != held {
						rec.Violate("fingerprint", "fingerprint-held:tsReload",
							fmt.Sprintf("the template Load handed out before the reload was altered by the reload (operation %d); node tree differs from byte %d", k, firstDiff(held, now)), caseInfo(k), "")
					}
					rec.Count("reloads-of-a-held-template", 1)
				}
			}
		case "shareTemplate":
			var t *twig.Template
			if op.Handle >= 0 {
				t = handles[op.Handle]
			} else if e.IsCacheEnabled() {
				t, _ = e.Load(op.Name)
			}
			if t != nil {
				var target *twig.Engine
				if h.nEng > 1 {
					target = engines[(op.Eng+1)%h.nEng]
				} else {
					target = twig.New()
					target.AddGlobal("engineId", "THROWAWAY")
				}
				target.RegisterTemplate(fmt.Sprintf("shared_%d_%d", k, op.Handle), t)
				rec.Count("templates-shared-with-another-engine", 1)
			}
		case "reregister":
			st := h.state(k)[op.Eng]
			if err := e.RegisterString(op.Name, st.srcs[op.Name]); err != nil {
				rec.Violate("register", "register-failed", fmt.Sprintf("RegisterString(%q) failed: %v", op.Name, err), caseInfo(k), "")
			}
			changed[op.Name] = true
		case "newVersion":
			st := h.state(k + 1)[op.Eng]
			loaders[op.Eng].SetTemplate(op.Name, st.srcs[op.Name])
			if err := e.RegisterString(op.Name, st.srcs[op.Name]); err != nil {
				rec.Violate("register", "register-failed", fmt.Sprintf("RegisterString(%q) failed: %v", op.Name, err), caseInfo(k), "")
			}
			changed[op.Name] = true
			// everything that was cached from the old version of this name is stale by design; re-register dependants too
			for _, n := range e.VerifCachedNames() {
				changed[n] = true
			}
		case "setCache":
			e.SetCache(op.N == 1)
		case "setDebugOther":
			if h.nEng > 1 {
				engines[(op.Eng+1)%h.nEng].SetDebug(op.N == 1)
			} else {
				// toggling process-wide debug state through a throw-away engine
				tmp := twig.New()
				tmp.SetDebug(op.N == 1)
				tmp.SetDebug(false)
			}
		case "gc":
			for i := 0; i < op.N; i++ {
				runtime.GC()
			}
		case "otherActivity":
			other := twig.New()
			switch op.N {
			case 0:
				other.RegisterString("o", "{% for i in 1..3 %}{% endfor %}") // parse error path
				other.RegisterString("o2", "{% for x in [1,2,3] %}{{ x }}{% if x %}y{% endif %}{% endfor %}{{ 'a'|upper }}")
				other.Render("o2", nil)
			case 1:
				other.RegisterString("o", "{{ v.Name }}{{ v.Count }}{{ v.Inner.Deep }}{{ p.Name }}")
				other.Render("o", map[string]interface{}{"v": c01Struct{Name: "n", Count: 2}, "p": &c01Struct{Name: "pn"}})
			case 2:
				long := strings.Repeat("<div class=\"c\">{{ a }} text</div>\n", 200)
				other.RegisterString("long", long)
				other.Render("long", map[string]interface{}{"a": 1})
			default:
				other.RegisterString("b", "{% extends 'nope' %}{% block a %}{{ parent() }}{% endblock %}")
				other.Render("b", nil)
				other.RegisterString("c", "{% macro m(a) %}{{ a }}{% endmacro %}{{ m(1) }}{{ 1 / 0 }}")
				other.Render("c", nil)
			}
		}
		opsBetween++
		// cache toggles change which templates are cached but never an existing entry
		invariants(k, changed, op.Eng)
	}
	canon := fmt.Sprintf("history:%d:%d:%d ops", seed, idx, len(h.ops))
	rec.Eval("history", canon, nontrivial)
	rec.Count("operations", len(h.ops))
	if rec.WantSample("history") {
		rec.Sample("history", map[string]any{"history": describe(len(h.ops) - 1), "engines": h.nEng})
	}
}
