package props

import (
	"bytes"
	"encoding/json"
	"fmt"
	"math"
	"math/big"
	"net/url"
	"os"
	"os/exec"
	"reflect"
	"strconv"
	"strings"
	"time"

	"verifharness/internal/core"
)

// C03 — output is a deterministic function of templates and context.
type c03 struct{ base }

func init() {
	p := &c03{base{
		id: "C03", level: "exploration",
		technique: "metamorphic monitor: every case is rendered 12 times in-process (fresh engine, context rebuilt with permuted map insertion order and fresh allocations) and 4 times in a second process; all 16 outputs must be byte-identical; plus a context that lives on: rendered, its maps changed in place (same objects, same sizes, one key renamed), rendered again and compared with an equal context built from scratch",
		rule: "case = template built from map-iterating / map-filtering / hash-literal / date-format / pointer-printing fragments + a context with untyped, typed and nested maps (2-9 entries), pointers and a fixed time; " +
			"Non-trivial: the template iterates or filters a map or hash literal with >= 4 entries, or formats a date with >= 2 format letters. Distinct = distinct (template, context spec).",
		assumptions: []string{
			"random(), date() without a value / 'now' and the zero time are exempt by the statement and not generated",
			"which order a map is visited in is not prescribed, only that it is fixed; errors count as outputs (the same error text every time is deterministic)",
			"both processes run with the same TZ; integer timestamps are formatted in that zone",
		},
		quick: 24000, thorough: 300000, minQuick: 3000, minThorough: 50000,
	}}
	Register(p)
	oneshots["C03"] = p.oneshot
}

func (p *c03) Shards(string) int         { return 16 }
func (p *c03) CaseTimeoutSec(string) int { return 120 }
func (p *c03) RequiredCounters(string) []string {
	return []string{"second-process-renders", "maps>=4", "date-formats", "maps-changed-in-place"}
}

type c03Struct struct {
	Name string
	P    *int
	S    *string
}

type c03Stamp int64

// fresh pointers as keys, inserted in a varying order
func c03PointerKeys(r *core.Rand) map[*int]string {
	m := map[*int]string{}
	for _, i := range r.Perm(4) {
		k := new(int)
		*k = (i + 1) * 11
		m[k] = fmt.Sprintf("p%d", i)
	}
	return m
}

// integer keys of which several round to the same float64, inserted in a varying order
func c03BigKeys(r *core.Rand) map[int64]string {
	keys := []int64{1 << 53, 1<<53 + 1, 1<<53 + 2, 1<<53 + 3, -(1 << 53) - 1, -(1 << 53) - 2, 7, 1<<62 + 1, 1<<62 + 2, 1<<62 + 3}
	m := map[int64]string{}
	for _, i := range r.Perm(len(keys)) {
		m[keys[i]] = fmt.Sprintf("k%d", i)
	}
	return m
}

type c03PairKey struct{ A, B string }

type c03Visit struct {
	Page string
	at   time.Time
}

type c03Hidden struct {
	Label string
	n     *big.Int
	u     *url.URL
	when  *time.Time
}

type c03Case struct {
	src        string
	keys       []string
	vals       []int
	keys2      []string
	nontrivial bool
	bigMap     bool
	dateFmt    string
}

var c03DateLetters = []string{"d", "D", "j", "l", "F", "m", "M", "n", "Y", "y", "a", "A", "g", "G", "h", "H", "i", "s"}

func (p *c03) gen(seed uint64, idx int) c03Case {
	r := core.NewRand("C03", seed, idx)
	var c c03Case
	n := r.Range(2, 9)
	all := c03AllKeys
	perm := r.Perm(len(all))
	vperm := r.Perm(98)
	for i := 0; i < n; i++ {
		c.keys = append(c.keys, all[perm[i]])
		c.vals = append(c.vals, vperm[i]+1) // distinct, so that maps keyed by value are equal whatever the insertion order
	}
	n2 := r.Range(2, 5)
	perm2 := r.Perm(len(all))
	for i := 0; i < n2; i++ {
		c.keys2 = append(c.keys2, all[perm2[i]])
	}
	c.bigMap = n >= 4
	hash := func(k int) string {
		parts := []string{}
		pm := r.Perm(len(all))
		for i := 0; i < k; i++ {
			parts = append(parts, fmt.Sprintf("'%s': %d", all[pm[i]], r.Range(1, 9)))
		}
		return "{" + strings.Join(parts, ", ") + "}"
	}
	// hash literals with integer and digit-string keys (0-based runs, gaps, collisions between the two operands of a merge)
	ihash := func(k int) string {
		parts := []string{}
		pm := r.Perm(6)
		for i := 0; i < k && i < 6; i++ {
			key := fmt.Sprint(pm[i])
			if r.P(1, 3) {
				key = "'" + key + "'"
			}
			parts = append(parts, fmt.Sprintf("%s: '%s%d'", key, all[r.Intn(len(all))], i))
		}
		return "{" + strings.Join(parts, ", ") + "}"
	}
	// a key written twice: the later pair wins, every time
	dup := func() string {
		k1, k2 := all[r.Intn(len(all))], all[r.Intn(len(all))]
		return fmt.Sprintf("{'%s': 1, '%s': 2, '%s': 3, '%s': 4, '%s': 5}", k1, k2, k1, k2, k1)
	}
	frags := []string{
		"{{ " + dup() + "|json_encode }}", "{% set h = " + dup() + " %}{{ h|json_encode }}{% for k, v in h %}{{ k }}{{ v }}{% endfor %}", "{% include 'inc' with " + dup() + " %}", "{{ " + dup() + "|keys|join(',') }}{{ " + dup() + "|first }}",
		"{{ " + ihash(r.Range(2, 6)) + "|merge(" + ihash(r.Range(2, 6)) + ")|json_encode }}",
		"{% for k, v in " + ihash(r.Range(2, 6)) + "|merge(" + ihash(r.Range(2, 6)) + ") %}{{ k }}={{ v }};{% endfor %}",
		"{{ ik|merge(ik2)|json_encode }}", "{% for k, v in ik|merge(ik2) %}{{ k }}={{ v }};{% endfor %}", "{{ " + ihash(r.Range(2, 6)) + "|merge(ik3)|json_encode }}", "{{ ik3|merge(" + ihash(r.Range(3, 6)) + ")|keys|join(',') }}",
		"{{ ik3|merge(ik4)|join(',') }}", "{{ m|merge(ik3)|keys|join(',') }}", "{{ ik3|merge(m)|json_encode }}", "{{ " + ihash(r.Range(3, 6)) + "|keys|join(',') }}{{ " + ihash(r.Range(3, 6)) + "|first }}", "{{ ik3|reverse|join(',') }}{{ ik3|sort|join(',') }}",
		"{% for k, v in m %}{{ k }}={{ v }};{% endfor %}",
		"{% for v in m %}{{ v }}.{{ loop.index }}{{ loop.last ? '!' : ',' }}{% endfor %}",
		"{% for k, v in " + hash(r.Range(2, 9)) + " %}{{ k }}:{{ v }} {% endfor %}",
		"{% for k, v in " + hash(r.Range(4, 9)) + " %}{{ loop.index }}{{ k }}{% endfor %}",
		"{{ m|first }}", "{{ m|keys|join(',') }}", "{{ m|merge(m2)|keys|join('/') }}", "{{ m|merge(m2)|json_encode }}", "{{ m|join(',') }}", "{{ m|length }}", "{{ m|json_encode }}", "{{ m }}",
		"{% for k, v in m|merge(m2) %}{{ k }}{{ v }}{% endfor %}", "{% for k in m|keys %}{{ k }}{% endfor %}", "{{ dump(m) }}", "{{ tm }}", "{% for k, v in tm %}{{ k }}-{{ v }};{% endfor %}",
		"{% for k, v in ti %}{{ k }}-{{ v }};{% endfor %}", "{{ ti|keys|join(',') }}", "{{ tm|first }}", "{{ tm|merge(tm2)|json_encode }}", "{{ ik|first }}{% for k, v in ik %}{{ k }}{{ v }}{% endfor %}{{ ik|keys|join(',') }}",
		"{% for k, v in nested %}{{ k }}[{% for k2, v2 in v %}{{ k2 }}{{ v2 }}{% endfor %}]{% endfor %}", "{{ nested|json_encode }}", "{{ nested }}",
		"{% set h = " + hash(r.Range(3, 8)) + " %}{{ h|keys|join }}{{ h|first }}{% for k, v in h %}{{ k }}{% endfor %}{{ h|json_encode }}",
		"{{ " + hash(r.Range(3, 8)) + "|merge(m)|first }}", "{{ m|default('d')|first }}", "{{ max(m) }}", "{{ m|reverse }}", "{{ m|sort|join(',') }}", "{% if 'alpha' in m %}y{% else %}n{% endif %}",
		"{{ 'username and user name'|replace({'user': 'U', 'username': 'N', 'name': 'M', 'u': 'x'}) }}", "{{ 'aXbXc'|replace({'X': '-', 'aX': '+', 'Xc': '!'}) }}",
		"{{ ps }}", "{{ mp }}", "{{ st }}|{{ pst }}", "{{ lp }}", "{{ [p, pp, ps] }}", "{{ {'k': p, 'l': ps} }}", "{{ ps ~ mp }}", "{{ ps|first }}{{ ps|last }}", "{{ dump(ps)|length > 0 ? 'd' : 'n' }}",
		"{{ p }}", "{{ ps|join(',') }}", "{% for x in ps %}{{ x }}{% endfor %}", "{{ st.P }}|{{ st.S }}", "{{ st.Name }}", "{{ pp }}", "{{ pst.Name }}", "{{ lp|first }}", "{{ mp|first }}{% for k, v in mp %}{{ v }}{% endfor %}",
		// typed collections whose first entry holds no pointer while later ones do; maps with a nil entry
		"{{ psn }}", "{{ stl }}", "{{ mpn }}", "{{ [psn, stl] }}|{{ arrp }}", "{{ psn ~ mpn }}", "{{ {'a': stl, 'b': mpn} }}", "{{ lpn }}{{ psn|last }}", "{{ stl|last }}|{{ stl|first }}", "{{ mpn|last }}{{ mpn|first }}",
		// keys of different Go types that are numerically equal or print alike
		"{{ tie2[1] }}|{{ tie2['1'] }}|{{ tie2[2] }}|{{ tie2['2'] }}|{{ tie2[1.0] }}", "{{ tie[1] }}|{{ tie['1'] }}|{{ tie[2] }}", "{{ tie2[n1] }}{{ tie2[n2] }}|{{ ti[n1] }}{{ im3['1'] }}{{ im3[1] }}",
		// a hash whose values do not order totally when numbers and text are compared by different rules
		"{{ mix|sort|join(',') }}", "{{ mix|sort|first }}|{{ mix|sort|last }}", "{{ max(mix) }}|{{ min(mix) }}", "{{ mix|reverse|join(',') }}|{{ mix|join(',') }}", "{{ mix|keys|sort|join }}{{ mix|length }}", "{% for v in mix|sort %}{{ v }};{% endfor %}",
		"{% for k, v in tie %}{{ k }}={{ v }},{% endfor %}", "{{ tie|first }}|{{ tie|last }}|{{ tie|keys|join(',') }}", "{{ tiep }}", "{{ tie|json_encode|length }}{% for v in tie %}{{ v }}{% endfor %}", "{{ tie|merge({'x': 1})|first }}", "{{ merge(tie, {'z': 1})|json_encode }}", "{{ tm|merge(tie)|json_encode }}", "{{ ti|merge(tie2)|keys|join(',') }}{{ tm|merge(tie2)|first }}", "{{ merge(tie2, tie)|keys|join(',') }}{{ merge(tie2, {'q': 2})|first }}",
		// a NaN key among numeric keys; channels, functions and pointers handed to print, format and dump
		"{% for k, v in nanm %}{{ k }}={{ v }};{% endfor %}", "{{ nanm|keys|join(',') }}|{{ nanm|first }}|{{ nanm|last }}", "{{ nanm }}|{{ nanm|json_encode|length }}", "{{ nanm|merge(ik)|keys|join(',') }}",
		"{{ ch }}|{{ fn }}|{{ [ch, fn] }}", "{{ '%v %v'|format(p, ps) }}|{{ '%d'|format(p) }}|{{ '%s'|format(pstr) }}", "{{ dump(mp) }}|{{ dump(p) }}|{{ dump(st) }}", "{{ dump(ps, lp) }}|{{ '%v'|format(mp) }}|{{ '%v'|format(pp) }}", "{{ {'c': ch}|join }}{{ dump(ch)|length > 0 ? 'd' : 'n' }}",
		// pointers as map keys and several NaN keys, printed
		"{{ pkm }}|{{ nan3 }}", "{{ [pkm, nan3] }}|{{ {'k': nan3, 'p': pkm} }}", "{{ pkm ~ '' }}{{ '%v'|format(nan3) }}|{{ dump(pkm)|length > 0 ? 'd' : 'n' }}",
		// array and struct keys of one type that print alike and differ ([2]string{"a b", "c"} and {"a", "b c"})
		"{% for k, v in akm %}{{ v }};{% endfor %}|{{ akm|first }}{{ akm|last }}|{{ akm|keys|join(',') }}", "{% for k, v in skm %}{{ k }}={{ v }};{% endfor %}|{{ skm|first }}|{{ skm|join(',') }}", "{{ akm }}|{{ skm }}|{{ akm|json_encode|length }}{% for v in skm %}{{ v }}{% endfor %}",
		// integer keys beyond 2^53 (neighbours that are one float64); two failing values in one include
		"{% for k, v in bigk %}{{ k }}={{ v }};{% endfor %}|{{ bigk|keys|join(',') }}|{{ bigk|first }}{{ bigk|last }}", "{{ bigk }}|{{ bigk|json_encode|length }}|{% for v in bigk %}{{ v }}{% endfor %}",
		"{% include 'inc' with {'alpha': nosuch_a(), 'beta': nosuch_b(), 'gamma': nosuch_c(), 'delta': nosuch_d()} %}", "{% include 'inc' with {'eps': 1 / 0, 'beta': nosuch_b(1), 'zeta': [] .x.y} only %}",
		// timestamps of the less common number types and a pointer to a time: not "the current date" (the case re-renders these
		// after the clock has moved on by more than a second, see Run)
		"{{ ts32|date('Y-m-d H:i:s') }}|{{ tsu|date('H:i:s') }}|{{ tsf|date('i:s') }}", "{{ tsn|date('Y s') }}|{{ pd|date('Y-m-d H:i:s') }}|{{ tsnamed|date('d H:i:s') }}",
		// values that print themselves (String methods) held in unexported fields, where fmt cannot call the method and would
		// print the pointers inside them
		"{{ visit }}", "{{ visits }}|{{ visits|join(',') }}", "{{ '%v'|format(visits) }}|{{ visit ~ '' }}", "{{ {'v': visit}|join }}{{ [visit]|first }}", "{{ hidden }}|{{ dump(hidden)|length > 0 ? 'd' : 'n' }}",
		"{% include 'inc3' with {'a1': a2, 'a2': a3, 'a3': a1, 'n1': n2 + 1, 'n2': 10} %}", "{% include 'inc3' with {'a3': a2 ~ a1, 'a2': a1, 'a1': 'x', 'n2': n1, 'n1': n2} only %}",
		"{% include 'inc' with m %}", "{% include 'inc' with " + hash(r.Range(3, 6)) + " only %}",
	}
	// date format
	nl := r.Range(1, 8)
	var f strings.Builder
	seps := []string{"", "-", "/", " ", ", ", ":", ".", " at "}
	for i := 0; i < nl; i++ {
		f.WriteString(c03DateLetters[r.Intn(len(c03DateLetters))])
		f.WriteString(seps[r.Intn(len(seps))])
	}
	c.dateFmt = f.String()
	dateFrags := []string{"{{ d|date('" + c.dateFmt + "') }}", "{{ ts|date('" + c.dateFmt + "') }}", "{{ d|date }}", "{{ date(d)|date('" + c.dateFmt + "') }}", "{{ '2024-03-05 14:07:09'|date('" + c.dateFmt + "') }}"}
	k := r.Range(1, 4)
	var b strings.Builder
	usesMap, usesDate := false, false
	for i := 0; i < k; i++ {
		if r.P(1, 4) {
			b.WriteString(dateFrags[r.Intn(len(dateFrags))])
			usesDate = true
		} else {
			fr := frags[r.Intn(len(frags))]
			b.WriteString(fr)
			if strings.Contains(fr, "m") || strings.Contains(fr, "{'") {
				usesMap = true
			}
		}
		b.WriteString("|")
	}
	c.src = b.String()
	c.nontrivial = (usesMap && c.bigMap) || (usesDate && nl >= 2)
	if !usesDate {
		c.dateFmt = ""
	}
	return c
}

// buildCtx rebuilds an equal context with a different insertion order and fresh allocations.
func (c c03Case) buildCtx(variant uint64) map[string]interface{} {
	r := core.NewRand("C03ctx", variant, 0)
	m := map[string]interface{}{}
	tm := map[string]string{}
	ti := map[string]int{}
	for _, i := range r.Perm(len(c.keys)) {
		m[c.keys[i]] = c.vals[i]
		tm[c.keys[i]] = fmt.Sprintf("s%d", c.vals[i])
		ti[c.keys[i]] = c.vals[i]
	}
	m2 := map[string]interface{}{}
	tm2 := map[string]string{}
	for _, i := range r.Perm(len(c.keys2)) {
		m2[c.keys2[i]] = 100 + i
		tm2[c.keys2[i]] = fmt.Sprintf("t%d", i)
	}
	ik := map[int]string{}
	for _, i := range r.Perm(len(c.keys)) {
		ik[c.vals[i]] = c.keys[i]
	}
	// maps with small integer keys that collide with one another and with 0-based literal keys
	ik2, ik3, ik4 := map[int]string{}, map[int]string{}, map[int]interface{}{}
	for _, i := range r.Perm(len(c.keys)) {
		ik2[c.vals[i]] = "two-" + c.keys[i]
		ik3[i] = "three-" + c.keys[i]
		ik4[(i+1)%len(c.keys)] = "four-" + c.keys[i]
	}
	nested := map[string]interface{}{}
	for _, i := range r.Perm(len(c.keys)) {
		inner := map[string]interface{}{}
		for _, j := range r.Perm(len(c.keys2)) {
			inner[c.keys2[j]] = i*10 + j
		}
		nested[c.keys[i]] = inner
	}
	// pointers: fresh allocations every time, with garbage in between so addresses move
	junk := make([][]byte, r.Range(1, 40))
	for i := range junk {
		junk[i] = make([]byte, r.Range(1, 3000))
	}
	_ = junk
	pi := new(int)
	*pi = 42
	s := new(string)
	*s = "pointed"
	ps := []*int{}
	for i := 0; i < 3; i++ {
		x := new(int)
		*x = i + 7
		ps = append(ps, x)
	}
	ppi := &pi
	mp := map[string]*int{}
	for _, i := range r.Perm(len(c.keys)) {
		x := new(int)
		*x = c.vals[i]
		mp[c.keys[i]] = x
	}
	psn := []*int{nil}
	for i := 0; i < 2; i++ {
		x := new(int)
		*x = i + 70
		psn = append(psn, x)
	}
	stl := []c03Struct{{Name: "n0"}, {Name: "n1", P: pi}, {Name: "n2", S: s}}
	mpn := map[string]*int{}
	for _, i := range r.Perm(len(c.keys)) {
		if i%2 == 0 {
			mpn[c.keys[i]] = nil
			continue
		}
		x := new(int)
		*x = c.vals[i]
		mpn[c.keys[i]] = x
	}
	arrp := [3]*int{nil, ps[0], nil}
	tie := map[interface{}]interface{}{}
	tiep := map[interface{}]*int{}
	tieKeys := []interface{}{1, int64(1), 1.0, "1", uint8(1), 2, int64(2), "2", float32(2)}
	for _, i := range r.Perm(len(tieKeys)) {
		tie[tieKeys[i]] = fmt.Sprintf("%T", tieKeys[i])
		x := new(int)
		*x = 100 + i
		tiep[tieKeys[i]] = x
	}
	// keys that the template language considers equal to 1 and 2 although none of them is the Go int a literal index is
	tie2 := map[interface{}]interface{}{}
	tie2Keys := []interface{}{int64(1), "1", 1.0, uint8(1), int64(2), "2", float32(2), uint16(2)}
	for _, i := range r.Perm(len(tie2Keys)) {
		tie2[tie2Keys[i]] = fmt.Sprintf("%T", tie2Keys[i])
	}
	im3 := map[int64]string{}
	for _, i := range r.Perm(3) {
		im3[int64(i)] = fmt.Sprintf("i%d", i)
	}
	mix := map[string]interface{}{}
	mixVals := []interface{}{9, 10, "10-beta", 1.5, "1.50", "x", "9", 10.0, "", true}
	for _, i := range r.Perm(len(mixVals)) {
		mix[fmt.Sprintf("k%d", i)] = mixVals[i]
	}
	nanm := map[float64]string{}
	nanKeys := []float64{math.NaN(), 3, 1, -2, 2.5, math.Inf(1)}
	for _, i := range r.Perm(len(nanKeys)) {
		nanm[nanKeys[i]] = fmt.Sprintf("f%d", i)
	}
	zone := time.FixedZone("CET", 3600)
	at := time.Date(2024, 1, 2, 3, 4, 5, 0, zone)
	u, _ := url.Parse("https://example.org/a?b=c")
	return map[string]interface{}{
		"akm":  map[[2]string]int{{"a b", "c"}: 1, {"a", "b c"}: 2, {"a", "b  c"}: 3, {"", "a b c"}: 4, {"a b c", ""}: 5},
		"skm":  map[c03PairKey]string{{"a b", "c"}: "p", {"a", "b c"}: "q", {"a b c", ""}: "r", {"x", "y"}: "s"},
		"bigk": c03BigKeys(r), "pkm": c03PointerKeys(r), "nan3": map[float64]string{math.NaN(): "a", math.NaN(): "b", math.NaN(): "c", 1.5: "x", math.Float64frombits(0x7ff8000000000001): "d"},
		"ts32": int32(34560000), "tsu": uint(34560001), "tsf": float32(34560000), "tsn": json.Number("34560002"), "pd": &at, "tsnamed": c03Stamp(34560003),
		"visit":  c03Visit{Page: "home", at: at},
		"visits": []c03Visit{{Page: "a", at: at}, {Page: "b", at: at.Add(time.Hour)}},
		"hidden": c03Hidden{Label: "h", n: big.NewInt(1 << 40), u: u, when: &at},
		"nanm":   nanm, "ch": make(chan int), "fn": func() {}, "pstr": s,
		"mix":  mix,
		"tie2": tie2, "im3": im3,
		"psn": psn, "stl": stl, "mpn": mpn, "lpn": []interface{}{nil, pi}, "arrp": arrp, "tie": tie, "tiep": tiep,
		"m": m, "m2": m2, "tm": tm, "tm2": tm2, "ti": ti, "ik": ik, "ik2": ik2, "ik3": ik3, "ik4": ik4, "nested": nested,
		"p": pi, "ps": ps, "pp": ppi, "st": c03Struct{Name: "sv", P: pi, S: s}, "pst": &c03Struct{Name: "psv"}, "lp": []interface{}{pi}, "mp": mp,
		"d": time.Date(2024, 3, 5, 14, 7, 9, 0, time.UTC), "ts": 1709647629, "a1": "one", "a2": "two", "a3": "three", "n1": 1, "n2": 2,
	}
}

func (c c03Case) render(variant uint64) string {
	return c.renderCtx(c.buildCtx(variant))
}

// morphInPlace gives every map of ctx that has a counterpart of the same type in fresh the entries of that counterpart,
// keeping the map object (and so its address and, when the counts agree, its length); everything else is replaced.
func morphInPlace(ctx, fresh map[string]interface{}) (morphed int) {
	for name, nv := range fresh {
		ov := reflect.ValueOf(ctx[name])
		fv := reflect.ValueOf(nv)
		if ov.IsValid() && ov.Kind() == reflect.Map && fv.Kind() == reflect.Map && ov.Type() == fv.Type() && !ov.IsNil() {
			for _, k := range ov.MapKeys() {
				ov.SetMapIndex(k, reflect.Value{})
			}
			for _, k := range fv.MapKeys() {
				ov.SetMapIndex(k, fv.MapIndex(k))
			}
			morphed++
			continue
		}
		ctx[name] = nv
	}
	return morphed
}

var c03AllKeys = []string{"alpha", "beta", "gamma", "delta", "eps", "zeta", "eta", "theta", "iota", "kappa", "lam", "mu"}

// renamed: the same case with its first key replaced by a name the case does not use (same number of entries everywhere)
func (c c03Case) renamed() c03Case {
	used := map[string]bool{}
	for _, k := range c.keys {
		used[k] = true
	}
	c2 := c
	c2.keys = append([]string{}, c.keys...)
	for _, k := range c03AllKeys {
		if !used[k] {
			c2.keys[0] = k
			break
		}
	}
	return c2
}

func (c c03Case) renderCtx(ctx map[string]interface{}) string {
	res := renderFresh(map[string]string{"main": c.src, "inc3": "[{{ a1 }},{{ a2 }},{{ a3 }},{{ n1 }},{{ n2 }}]", "inc": "{% for k, v in _context|default({}) %}{% endfor %}[{{ alpha }}{{ beta }}{{ gamma }}{{ delta }}{{ eps }}]"}, "main", ctx, nil)
	if res.Panicked {
		return "PANIC@" + res.Site + ":" + res.PanicVal
	}
	if res.Err != nil {
		return "ERR:" + res.Err.Error()
	}
	return res.Out
}

func (p *c03) oneshot(args []string) {
	seed, _ := strconv.ParseUint(args[0], 10, 64)
	idx, _ := strconv.Atoi(args[1])
	c := p.gen(seed, idx)
	var outs []string
	for i := 0; i < 4; i++ {
		outs = append(outs, c.render(uint64(1000+i)))
	}
	b, _ := json.Marshal(outs)
	os.Stdout.Write(b)
}

// wild: an entry of the independently written corpus, rendered 10 times on fresh engines with contexts rebuilt in permuted
// insertion order; all outputs (or errors) must be identical.
func (p *c03) wild(rec *core.Recorder, seed uint64, idx int) {
	w := Wild()
	if len(w) == 0 {
		rec.Count("wild-corpus-missing", 1)
		return
	}
	e := w[(idx/7+int(seed))%len(w)]
	rec.Eval("wild", e.ID, true)
	distinct := map[string]int{}
	for i := 0; i < 10; i++ {
		res := renderFresh(e.Srcs(), e.Render, e.Ctx(core.NewRand("C03wild", seed, idx*16+i)), nil)
		o := res.Out
		if res.Panicked {
			o = "PANIC@" + res.Site + ":" + res.PanicVal
		} else if res.Err != nil {
			o = "ERR:" + res.Err.Error()
		}
		distinct[o]++
	}
	rec.Count("wild-renders", 10)
	if len(distinct) > 1 {
		var ex []string
		for o := range distinct {
			if len(ex) < 3 {
				ex = append(ex, core.Q(core.Trunc(o, 160)))
			}
		}
		rec.Violate("repeat-equality", "c03-wild:"+e.ID,
			fmt.Sprintf("10 renders of corpus entry %s (%s) with equal contexts gave %d different outputs, e.g. %s", e.ID, e.Note, len(distinct), strings.Join(ex, " vs ")),
			map[string]any{"entry": e.ID, "templates": e.Templates, "context": e.Context}, "")
		return
	}
	for o := range distinct {
		if strings.HasPrefix(o, "PANIC@") {
			rec.Violate("panic", "panic@"+strings.SplitN(strings.TrimPrefix(o, "PANIC@"), ":", 2)[0], "engine panicked on corpus entry "+e.ID+": "+o, map[string]any{"entry": e.ID, "templates": e.Templates}, "")
		}
	}
}

func (p *c03) Run(rec *core.Recorder, seed uint64, idx int, tier string) {
	if idx%7 == 6 {
		p.wild(rec, seed, idx)
		return
	}
	c := p.gen(seed, idx)
	rec.Eval("case", c.src+fmt.Sprint(c.keys, c.vals, c.keys2), c.nontrivial)
	if c.bigMap {
		rec.Count("maps>=4", 1)
	}
	if c.dateFmt != "" {
		rec.Count("date-formats", 1)
	}
	outs := make([]string, 0, 16)
	for i := 0; i < 12; i++ {
		outs = append(outs, c.render(uint64(i)))
	}
	rec.Count("renders", 12)
	if (strings.Contains(c.src, "ts32|") || strings.Contains(c.src, "tsn|")) && core.Hash64(c.src, fmt.Sprint(c.keys), "wait")%6 == 0 {
		// let the clock move on: what these fragments print is a function of the context, not of the moment of rendering
		time.Sleep(1100 * time.Millisecond)
		outs = append(outs, c.render(uint64(50)), c.render(uint64(51)))
		rec.Count("renders-after-a-second", 2)
	}
	exe, _ := os.Executable()
	cmd := exec.Command(exe, "oneshot", "C03", fmt.Sprint(seed), fmt.Sprint(idx))
	var stderr bytes.Buffer
	cmd.Stderr = &stderr
	b, err := cmd.Output()
	var outsB []string
	if err != nil || json.Unmarshal(b, &outsB) != nil {
		rec.Inconc("second process failed for case %d: %v %s", idx, err, core.Trunc(stderr.String(), 200))
	} else {
		outs = append(outs, outsB...)
		rec.Count("second-process-renders", len(outsB))
	}
	distinct := map[string]int{}
	for _, o := range outs {
		distinct[o]++
	}
	cs := map[string]any{"template": c.src, "keys": c.keys, "vals": c.vals, "keys2": c.keys2}
	if len(distinct) > 1 {
		var ex []string
		for o := range distinct {
			if len(ex) < 3 {
				ex = append(ex, core.Q(core.Trunc(o, 160)))
			}
		}
		panics := false
		for o := range distinct {
			if strings.HasPrefix(o, "PANIC@") {
				panics = true
			}
		}
		_ = panics
		rec.Violate("repeat-equality", core.SigHash("c03", c.src+fmt.Sprint(c.keys)),
			fmt.Sprintf("%d renders of the same template and equal context gave %d different outputs, e.g. %s; template %s", len(outs), len(distinct), strings.Join(ex, " vs "), core.Q(c.src)), cs, "")
		return
	}
	if strings.HasPrefix(outs[0], "PANIC@") {
		rec.Violate("panic", "panic@"+strings.SplitN(strings.TrimPrefix(outs[0], "PANIC@"), ":", 2)[0], "engine panicked: "+outs[0], cs, "")
		return
	}
	// a context that lives on: rendered once, then its maps are given other entries in place (one key renamed, so every
	// map keeps its address and its length) and it is rendered again. The bytes are determined by what the context holds
	// now: they must equal those of a context with the same contents built from scratch.
	{
		c2 := c.renamed()
		live := c.buildCtx(77)
		before := c.renderCtx(live)
		morphed := morphInPlace(live, c2.buildCtx(78))
		after := c.renderCtx(live)
		want := c2.render(79)
		rec.Count("renders", 3)
		rec.Count("maps-changed-in-place", morphed)
		if before != outs[0] || after != want {
			rec.Violate("repeat-equality", core.SigHash("c03-live", c.src+fmt.Sprint(c.keys)),
				fmt.Sprintf("a context whose maps were changed in place between two renders (key %q renamed to %q, same sizes) rendered %s; an equal context built from scratch renders %s; template %s",
					c.keys[0], c2.keys[0], core.Q(core.Trunc(after, 160)), core.Q(core.Trunc(want, 160)), core.Q(c.src)), cs, "")
			return
		}
	}
	if rec.WantSample("case") {
		cs["output"] = core.Trunc(outs[0], 300)
		cs["identical_renders"] = len(outs)
		rec.Sample("case", cs)
	}
}
