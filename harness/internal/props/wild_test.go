package props

import (
	"testing"

	"verifharness/internal/core"
)

// TestWildCorpusRenders: every corpus entry renders without error or panic on the current engine (entries that do not are
// listed, so that they can be dropped from the corpus).
func TestWildCorpusRenders(t *testing.T) {
	w := Wild()
	t.Logf("%d corpus entries", len(w))
	bad := 0
	for _, e := range w {
		res := renderFresh(e.Srcs(), e.Render, e.Ctx(core.NewRand("t", 1, 0)), nil)
		if res.Panicked || res.Err != nil {
			bad++
			t.Errorf("%s: panicked=%v err=%v", e.ID, res.Panicked, res.Err)
		}
	}
	t.Logf("%d entries fail", bad)
}
