package props

import (
	"fmt"
	"regexp"
	"sort"
	"strings"

	"github.com/semihalev/twig"

	"verifharness/internal/core"
	"verifharness/internal/mt"
)

// toGo converts a reference value into the Go value handed to the engine.
func toGo(v mt.Val) interface{} {
	switch x := v.(type) {
	case nil:
		return nil
	case bool:
		return x
	case int64:
		return int(x)
	case int:
		return x
	case string:
		return x
	case []mt.Val:
		out := make([]interface{}, len(x))
		for i, it := range x {
			out[i] = toGo(it)
		}
		return out
	case map[string]mt.Val:
		out := make(map[string]interface{}, len(x))
		for k, it := range x {
			out[k] = toGo(it)
		}
		return out
	}
	panic(fmt.Sprintf("toGo: %T", v))
}

func ctxToGo(ctx map[string]mt.Val) map[string]interface{} {
	out := make(map[string]interface{}, len(ctx))
	for k, v := range ctx {
		out[k] = toGo(v)
	}
	return out
}

// Result of one engine call.
type Result struct {
	Out      string
	Err      error
	Panicked bool
	Site     string
	PanicVal string
	Stack    string
}

func (r Result) ErrStr() string {
	if r.Panicked {
		return "PANIC " + r.PanicVal + " @" + r.Site
	}
	if r.Err != nil {
		return r.Err.Error()
	}
	return ""
}

// Ticker is the tick(id, v) spy: returns v, logs id.
type Ticker struct{ IDs []int64 }

func (t *Ticker) Fn(args ...interface{}) (interface{}, error) {
	if len(args) != 2 {
		return nil, fmt.Errorf("tick wants 2 args")
	}
	switch n := args[0].(type) {
	case int:
		t.IDs = append(t.IDs, int64(n))
	case float64:
		t.IDs = append(t.IDs, int64(n))
	case int64:
		t.IDs = append(t.IDs, n)
	default:
		return nil, fmt.Errorf("tick id %T", args[0])
	}
	return args[1], nil
}

// freshEngine builds a new engine whose templates come from an ArrayLoader.
func freshEngine(srcs map[string]string) *twig.Engine {
	e := twig.New()
	cp := make(map[string]string, len(srcs))
	for k, v := range srcs {
		cp[k] = v
	}
	e.RegisterLoader(twig.NewArrayLoader(cp))
	return e
}

// renderFresh: one fresh engine, one render, panics captured.
func renderFresh(srcs map[string]string, name string, ctx map[string]interface{}, setup func(*twig.Engine)) Result {
	var res Result
	res.Panicked, res.Site, res.PanicVal, res.Stack = core.Guard(func() {
		e := freshEngine(srcs)
		if setup != nil {
			setup(e)
		}
		res.Out, res.Err = e.Render(name, ctx)
	})
	return res
}

// largeTwinPad is an inert comment longer than the 4096-byte threshold at which the engine switches to its second tokenizer.
var largeTwinPad = "{# " + strings.Repeat("large twin filler ", 230) + "#}"

// maybeLarge appends the inert comment to every template of one case in six (chosen by a hash of the sources, so a replay
// makes the same choice). A comment contributes nothing, so the reference output is unchanged, but every tag of the case is
// then read by the large-template tokenizer instead of the small one.
func maybeLarge(rec *core.Recorder, srcs map[string]string) map[string]string {
	if core.Hash64(canonSrcs(srcs))%6 != 0 {
		return srcs
	}
	rec.Count("large-tokenizer-twins", 1)
	out := make(map[string]string, len(srcs))
	for k, v := range srcs {
		out[k] = v + largeTwinPad
	}
	return out
}

// shadowedGlobals gives one case in four engine globals that carry the names of the context variables with other values: a
// variable passed to the render shadows a global of the same name in every template the render reaches, so the reference
// output is unchanged.
func shadowedGlobals(rec *core.Recorder, canon string, ctx map[string]interface{}, inner func(*twig.Engine)) func(*twig.Engine) {
	if core.Hash64(canon, "globals")%4 != 0 {
		return inner
	}
	rec.Count("shadowed-globals-cases", 1)
	return func(e *twig.Engine) {
		for k := range ctx {
			e.AddGlobal(k, "GLOBAL<"+k+">")
		}
		e.AddGlobal("an_unrelated_global", 1)
		if inner != nil {
			inner(e)
		}
	}
}

var reBoundNames = regexp.MustCompile(`\{%-?\s*(?:for\s+([A-Za-z_]\w*)(?:\s*,\s*([A-Za-z_]\w*))?\s+in|set\s+([A-Za-z_]\w*)\s*=)`)

// shadowingMacros gives one case in five macros that carry the names of the template's own variables (loop variables, set
// variables, context entries): macros live beside variables, a macro that is never called renders nothing, and a name used
// as a variable means the variable, so the reference output is unchanged.
func shadowingMacros(rec *core.Recorder, canon string, src string, ctx map[string]interface{}) string {
	if core.Hash64(canon, "macros")%5 != 0 || strings.Contains(src, "extends") {
		return src
	}
	names := map[string]bool{}
	for _, m := range reBoundNames.FindAllStringSubmatch(src, -1) {
		for _, n := range m[1:] {
			if n != "" {
				names[n] = true
			}
		}
	}
	for k := range ctx {
		if strings.Contains(src, k) {
			names[k] = true
		}
	}
	delete(names, "loop")
	delete(names, "_self")
	if len(names) == 0 {
		return src
	}
	rec.Count("shadowing-macros-cases", 1)
	var b strings.Builder
	for _, n := range sortedKeys(names) {
		b.WriteString("{% macro " + n + "() %}MACRO<" + n + ">{% endmacro %}")
	}
	return b.String() + src
}

func fmtTicks(t []int64) string {
	parts := make([]string, len(t))
	for i, x := range t {
		parts[i] = fmt.Sprint(x)
	}
	return "[" + strings.Join(parts, " ") + "]"
}

func sortedKeys[V any](m map[string]V) []string {
	ks := make([]string, 0, len(m))
	for k := range m {
		ks = append(ks, k)
	}
	sort.Strings(ks)
	return ks
}

// canonSrcs is the canonical printed form of a template set (for hashing).
func canonSrcs(srcs map[string]string) string {
	var b strings.Builder
	for _, k := range sortedKeys(srcs) {
		b.WriteString(k)
		b.WriteString("\x00")
		b.WriteString(srcs[k])
		b.WriteString("\x01")
	}
	return b.String()
}

func canonVal(v mt.Val) string {
	switch x := v.(type) {
	case nil:
		return "null"
	case bool:
		return fmt.Sprint(x)
	case int64:
		return fmt.Sprint(x)
	case string:
		return fmt.Sprintf("%q", x)
	case []mt.Val:
		parts := make([]string, len(x))
		for i, it := range x {
			parts[i] = canonVal(it)
		}
		return "[" + strings.Join(parts, ",") + "]"
	case map[string]mt.Val:
		parts := []string{}
		for _, k := range sortedKeys(x) {
			parts = append(parts, fmt.Sprintf("%q:%s", k, canonVal(x[k])))
		}
		return "{" + strings.Join(parts, ",") + "}"
	}
	return fmt.Sprintf("%T", v)
}

func canonCtx(ctx map[string]mt.Val) string { return canonVal(map[string]mt.Val(ctx)) }

// caseDump is what goes into replay files / samples.
func caseDump(srcs map[string]string, name string, ctx map[string]mt.Val, extra map[string]any) map[string]any {
	m := map[string]any{"templates": srcs, "render": name, "context": canonCtx(ctx)}
	for k, v := range extra {
		m[k] = v
	}
	return m
}

// base implements the boring parts of Prop.
type base struct {
	id, level, technique, rule string
	assumptions                []string
	quick, thorough            int
	minQuick, minThorough      int
}

func (b *base) ID() string            { return b.id }
func (b *base) Level() string         { return b.level }
func (b *base) Technique() string     { return b.technique }
func (b *base) Rule() string          { return b.rule }
func (b *base) Assumptions() []string { return b.assumptions }
func (b *base) NumCases(tier string) int {
	if tier == "thorough" {
		return b.thorough
	}
	return b.quick
}
func (b *base) MinDistinct(tier string) int {
	if tier == "thorough" {
		return b.minThorough
	}
	return b.minQuick
}

// ---------------------------------------------------------------- vocab shared by generators

var words = []string{"alpha", "beta", "Gamma", "delta x", "eps", "Zeta", "eta-1", "theta", "io", "kap pa",
	"lam", "mu", "Nu", "xi", "omi", "pi", "rho", "sig", "tau", "ups", "é", "ßeta", "日本", "naïve", "Ünï", "a b", "x_y", "q"}

func word(r *core.Rand) string { return words[r.Intn(len(words))] }

var identPool = []string{"a", "b", "c", "d", "x", "y", "z", "n", "m", "k", "s", "t", "u", "v", "w", "p", "q", "item", "val", "foo", "bar", "baz", "cnt", "acc"}
