package props

import (
	"errors"
	"strconv"

	"verifharness/internal/core"
	"verifharness/internal/mt"
)

// Scope describes the context an expression is generated against.
type Scope struct {
	Ctx      map[string]mt.Val
	Ints     []string // names bound to int64
	Strs     []string // names bound to alphabetic strings
	IntLists []string // names bound to non-empty lists of ints
	StrLists []string // names bound to non-empty lists of strings
	Maps     []string // names bound to maps with keys "i" (int), "s" (str), "l" (int list)
	Undef    []string // names bound nowhere
}

// asciiWords never contain multi-byte text (used where a byte/code-point distinction
// belongs to another property).
var asciiWords = []string{"alpha", "beta", "Gamma", "delta x", "eps", "Zeta", "eta-1", "theta", "io", "kap pa", "lam", "mu", "q", "x_y", "nan", "NaN", "inf", "Infinity", "-inf", "", "0", "7", "007", "7.0", "+7", "10", "1e1", "-3", "-3.0", "a  b", "x   y", " lead", "trail  "}

// NewScope builds a random context.
func NewScope(r *core.Rand) *Scope {
	sc := &Scope{Ctx: map[string]mt.Val{}}
	add := func(list *[]string, name string, v mt.Val) {
		sc.Ctx[name] = v
		*list = append(*list, name)
	}
	small := func() int64 {
		switch r.Intn(8) {
		case 0:
			return 0
		case 1:
			return int64(-r.Range(1, 9))
		case 2:
			return int64(r.Range(10, 99))
		default:
			return int64(r.Range(1, 9))
		}
	}
	for i, n := range []string{"a", "b", "c", "n"} {
		if i < 2 || r.P(2, 3) {
			add(&sc.Ints, n, small())
		}
	}
	for i, n := range []string{"s", "t", "u"} {
		if i < 1 || r.P(2, 3) {
			add(&sc.Strs, n, asciiWords[r.Intn(len(asciiWords))])
		}
	}
	for i, n := range []string{"xs", "ys"} {
		if i < 1 || r.P(1, 2) {
			k := r.Range(1, 5)
			l := make([]mt.Val, k)
			for j := range l {
				l[j] = small()
			}
			add(&sc.IntLists, n, l)
		}
	}
	if r.P(2, 3) {
		k := r.Range(1, 4)
		l := make([]mt.Val, k)
		for j := range l {
			l[j] = asciiWords[r.Intn(len(asciiWords))]
		}
		add(&sc.StrLists, "ws", l)
	}
	for i, n := range []string{"m", "o"} {
		if i < 1 || r.P(1, 2) {
			k := r.Range(1, 3)
			l := make([]mt.Val, k)
			for j := range l {
				l[j] = small()
			}
			add(&sc.Maps, n, map[string]mt.Val{"i": small(), "s": asciiWords[r.Intn(len(asciiWords))], "l": l,
				"in": map[string]mt.Val{"i": small()}})
		}
	}
	sc.Undef = []string{"zz", "undef1", "nope"}
	return sc
}

// ExprGen builds typed expressions whose value the property statements define.
type ExprGen struct {
	R        *core.Rand
	Sc       *Scope
	Ticks    bool
	NextTick int64
	Ops      int // binary / conditional operators used (non-triviality)
	Levels   map[int]bool
	interp   *mt.Interp
}

func NewExprGen(r *core.Rand, sc *Scope, ticks bool) *ExprGen {
	return &ExprGen{R: r, Sc: sc, Ticks: ticks, NextTick: 1, Levels: map[int]bool{}}
}

// Eval evaluates e with the reference interpreter against the scope's context.
func (g *ExprGen) Eval(e mt.Expr) (mt.Val, []int64, error) {
	set := mt.NewSet()
	set.Add("x", []mt.Stmt{mt.Set{Name: "__r", E: e}})
	in := mt.NewInterp(set)
	var got mt.Val
	in.Filters["__cap"] = func(v mt.Val, _ []mt.Val) (mt.Val, error) { got = v; return "", nil }
	set.Add("x", []mt.Stmt{mt.Print{E: mt.Filt{E: mt.Paren{E: e}, Name: "__cap"}}})
	_, err := in.Render("x", g.Sc.Ctx)
	return got, in.Ticks, err
}

func (g *ExprGen) defined(e mt.Expr) bool {
	_, _, err := g.Eval(e)
	return err == nil
}

func (g *ExprGen) tick(e mt.Expr) mt.Expr {
	if !g.Ticks || !g.R.P(1, 4) {
		return e
	}
	id := g.NextTick
	g.NextTick++
	return mt.Call{Name: "tick", Args: []mt.Expr{mt.I(id), e}}
}

func (g *ExprGen) bin(op string, l, r mt.Expr) mt.Expr {
	g.Ops++
	switch op {
	case "or":
		g.Levels[1] = true
	case "and":
		g.Levels[2] = true
	case "+", "-", "~":
		g.Levels[4] = true
	case "*", "/", "%":
		g.Levels[5] = true
	case "^":
		g.Levels[6] = true
	default:
		g.Levels[3] = true
	}
	return mt.Bin{Op: op, L: l, R: r}
}

func (g *ExprGen) intLit() mt.Expr {
	r := g.R
	switch r.Intn(12) {
	case 0:
		return mt.I(0)
	case 1:
		return mt.I(int64(r.Range(100, 999)))
	case 2:
		return mt.I(int64(-r.Range(1, 20)))
	case 3:
		// magnitudes at which number formatting and integer/float conversions change behaviour, all within ±2^53
		big := []int64{999999, 1000000, 1000001, 16777216, 16777217, 123456789, 2147483647, 2147483648, 4294967296, 99999999999, 999999999999999, 1000000000000000, 1000000000000001, 4503599627370496, 9007199254740991}
		return mt.I(big[r.Intn(len(big))])
	default:
		return mt.I(int64(r.Range(1, 12)))
	}
}

func (g *ExprGen) intAtom() mt.Expr {
	r, sc := g.R, g.Sc
	for tries := 0; tries < 8; tries++ {
		switch r.Intn(10) {
		case 0, 1, 2:
			return g.intLit()
		case 3, 4:
			if len(sc.Ints) > 0 {
				return mt.V(sc.Ints[r.Intn(len(sc.Ints))])
			}
		case 5:
			if len(sc.Strs) > 0 {
				return mt.Filt{E: mt.V(sc.Strs[r.Intn(len(sc.Strs))]), Name: "length"}
			}
		case 6:
			if len(sc.IntLists) > 0 {
				return mt.Filt{E: mt.V(sc.IntLists[r.Intn(len(sc.IntLists))]), Name: "length"}
			}
		case 7:
			if len(sc.IntLists) > 0 {
				n := sc.IntLists[r.Intn(len(sc.IntLists))]
				l := sc.Ctx[n].([]mt.Val)
				return mt.Index{E: mt.V(n), I: mt.I(int64(r.Intn(len(l))))}
			}
		case 8:
			if len(sc.Maps) > 0 {
				n := sc.Maps[r.Intn(len(sc.Maps))]
				switch r.Intn(4) {
				case 0:
					return mt.Attr{E: mt.V(n), Name: "i"}
				case 1:
					return mt.Index{E: mt.V(n), I: mt.S("i")}
				case 2:
					return mt.Attr{E: mt.Attr{E: mt.V(n), Name: "in"}, Name: "i"}
				default:
					return mt.Attr{E: mt.Paren{E: mt.V(n)}, Name: "i"}
				}
			}
		case 9:
			return mt.I(int64(r.Range(0, 3)))
		}
	}
	return g.intLit()
}

// Int generates an Int-typed expression of at most the given depth.
func (g *ExprGen) Int(depth int) mt.Expr {
	for tries := 0; tries < 20; tries++ {
		e := g.int1(depth)
		if g.defined(e) {
			return e
		}
	}
	return g.intLit()
}

func (g *ExprGen) int1(depth int) mt.Expr {
	r := g.R
	if depth <= 0 || r.P(1, 5) {
		return g.tick(g.intAtom())
	}
	switch r.Intn(12) {
	case 0, 1, 2:
		return g.tick(g.bin("+", g.int1(depth-1), g.int1(depth-1)))
	case 3, 4:
		return g.tick(g.bin("-", g.int1(depth-1), g.int1(depth-1)))
	case 5, 6, 7:
		return g.tick(g.bin("*", g.int1(depth-1), g.int1(depth-1)))
	case 8:
		d := []int64{1, 2, 3, 4, 5, 7, 10}[r.Intn(7)]
		// (X * d) / d is exact by construction; also d * k literals
		if r.Bool() {
			return g.bin("/", g.bin("*", g.int1(depth-1), mt.I(d)), mt.I(d))
		}
		return g.bin("/", mt.I(d*int64(r.Range(0, 12))), mt.I(d))
	case 9:
		return g.bin("%", mt.I(int64(r.Range(0, 99))), mt.I(int64(r.Range(1, 9))))
	case 10:
		return g.bin("^", g.intAtom(), mt.I(int64(r.Range(0, 4))))
	default:
		if r.Bool() {
			return mt.Un{Op: "-", E: g.int1(depth - 1)}
		}
		g.Ops++
		return mt.Cond{C: g.Bool(depth - 1), A: g.int1(depth - 1), B: g.int1(depth - 1)}
	}
}

func (g *ExprGen) strAtom() mt.Expr {
	r, sc := g.R, g.Sc
	switch r.Intn(6) {
	case 0, 1:
		return mt.S(asciiWords[r.Intn(len(asciiWords))])
	case 2, 3:
		if len(sc.Strs) > 0 {
			return mt.V(sc.Strs[r.Intn(len(sc.Strs))])
		}
	case 4:
		if len(sc.Maps) > 0 {
			return mt.Attr{E: mt.V(sc.Maps[r.Intn(len(sc.Maps))]), Name: "s"}
		}
	case 5:
		if len(sc.StrLists) > 0 {
			n := sc.StrLists[r.Intn(len(sc.StrLists))]
			l := sc.Ctx[n].([]mt.Val)
			return mt.Index{E: mt.V(n), I: mt.I(int64(r.Intn(len(l))))}
		}
	}
	return mt.S(asciiWords[r.Intn(len(asciiWords))])
}

func (g *ExprGen) Str(depth int) mt.Expr {
	for tries := 0; tries < 20; tries++ {
		e := g.str1(depth)
		if g.defined(e) {
			return e
		}
	}
	return g.strAtom()
}

func (g *ExprGen) str1(depth int) mt.Expr {
	r := g.R
	if depth <= 0 || r.P(1, 3) {
		return g.tick(g.strAtom())
	}
	switch r.Intn(6) {
	case 0, 1:
		var rr mt.Expr
		if r.P(1, 3) {
			rr = g.int1(depth - 1)
		} else {
			rr = g.str1(depth - 1)
		}
		return g.tick(g.bin("~", g.str1(depth-1), rr))
	case 2:
		return mt.Filt{E: g.strPostfixable(depth - 1), Name: "upper"}
	case 3:
		return mt.Filt{E: g.strPostfixable(depth - 1), Name: "lower"}
	case 4:
		g.Ops++
		return mt.Cond{C: g.Bool(depth - 1), A: g.str1(depth - 1), B: g.str1(depth - 1)}
	default:
		return g.bin("~", g.int1(depth-1), g.str1(depth-1))
	}
}

func (g *ExprGen) strPostfixable(depth int) mt.Expr {
	e := g.str1(depth)
	return e
}

func (g *ExprGen) intListAtom() mt.Expr {
	r, sc := g.R, g.Sc
	if len(sc.IntLists) > 0 && r.P(1, 2) {
		return mt.V(sc.IntLists[r.Intn(len(sc.IntLists))])
	}
	if len(sc.Maps) > 0 && r.P(1, 3) {
		return mt.Attr{E: mt.V(sc.Maps[r.Intn(len(sc.Maps))]), Name: "l"}
	}
	if r.P(1, 6) {
		// a list of more than 50 integers (the engine treats long lists differently when it looks a value up)
		a := int64(r.Range(-5, 20))
		return mt.Call{Name: "range", Args: []mt.Expr{mt.I(a), mt.I(a + int64(r.Range(51, 90)))}}
	}
	k := r.Range(1, 4)
	items := make([]mt.Expr, k)
	for i := range items {
		items[i] = g.intLit()
	}
	return mt.Arr{Items: items}
}

func (g *ExprGen) Bool(depth int) mt.Expr {
	for tries := 0; tries < 20; tries++ {
		e := g.bool1(depth)
		if g.defined(e) {
			return e
		}
	}
	return g.bin("==", mt.I(1), mt.I(1))
}

var cmpOps = []string{"==", "!=", "<", ">", "<=", ">="}

func (g *ExprGen) bool1(depth int) mt.Expr {
	r := g.R
	if depth <= 0 {
		switch r.Intn(5) {
		case 0:
			return g.bin(cmpOps[r.Intn(6)], g.intAtom(), g.intAtom())
		case 1:
			n := g.Sc.Undef[r.Intn(len(g.Sc.Undef))]
			if r.Bool() && len(g.Sc.Ints) > 0 {
				n = g.Sc.Ints[r.Intn(len(g.Sc.Ints))]
			}
			return mt.IsDef{Name: n, Neg: r.P(1, 4)}
		case 2:
			return g.bin([]string{"==", "!="}[r.Intn(2)], g.strAtom(), g.strAtom())
		case 3:
			return g.bin([]string{"in", "not in"}[r.Intn(2)], g.intAtom(), g.intListAtom())
		default:
			return g.bin(cmpOps[r.Intn(6)], g.intAtom(), g.intLit())
		}
	}
	switch r.Intn(14) {
	case 0, 1, 2:
		if r.P(1, 4) {
			// a quotient that need not be whole, compared with an integer: "numeric comparison" fixes the result
			d := mt.I([]int64{2, 3, 4, 5, 7, 8, 10}[r.Intn(7)])
			q := g.bin("/", g.int1(depth-1), d)
			if r.P(1, 4) {
				q = g.bin("/", g.intAtom(), g.bin("+", d, g.bin("*", g.intAtom(), g.intAtom())))
			}
			if r.Bool() {
				return g.tick(g.bin(cmpOps[r.Intn(6)], q, g.int1(depth-1)))
			}
			return g.tick(g.bin(cmpOps[r.Intn(6)], g.int1(depth-1), q))
		}
		return g.tick(g.bin(cmpOps[r.Intn(6)], g.int1(depth-1), g.int1(depth-1)))
	case 3:
		return g.bin([]string{"==", "!="}[r.Intn(2)], g.str1(depth-1), g.str1(depth-1))
	case 4, 5, 6:
		return g.tick(g.bin("and", g.boolOperand(depth-1), g.boolOperand(depth-1)))
	case 7, 8, 9:
		return g.tick(g.bin("or", g.boolOperand(depth-1), g.boolOperand(depth-1)))
	case 10:
		switch r.Intn(3) {
		case 0:
			// not on a number: zero is false, every other integer is true, written as a literal or computed
			return mt.Un{Op: "not", E: mt.I([]int64{0, 1, 2, 0, 10}[r.Intn(5)])}
		case 1:
			return mt.Un{Op: "not", E: g.int1(depth - 1)}
		}
		return mt.Un{Op: "not", E: g.bool1(depth - 1)}
	case 11:
		op := []string{"starts with", "ends with", "in", "not in", "matches"}[r.Intn(5)]
		l, rr := g.strAtom(), mt.Expr(mt.S([]string{"a", "al", "x", "ta", "eta", "e", "Z", "mu"}[r.Intn(8)]))
		if op == "in" || op == "not in" {
			// substring test: needle in haystack
			return g.bin(op, rr, l)
		}
		return g.bin(op, l, rr)
	case 12:
		g.Ops++
		return mt.Cond{C: g.bool1(depth - 1), A: g.bool1(depth - 1), B: g.bool1(depth - 1)}
	default:
		return g.bin([]string{"in", "not in"}[r.Intn(2)], g.int1(depth-1), g.intListAtom())
	}
}

// boolOperand: an operand of and/or — any truthy-testable value (the statement defines
// and/or through truthiness), mostly Bool-typed.
func (g *ExprGen) boolOperand(depth int) mt.Expr {
	if g.R.P(1, 6) {
		return g.int1(depth)
	}
	if g.R.P(1, 10) {
		return g.str1(depth)
	}
	return g.bool1(depth)
}

// IntList generates a list-typed expression (for `for` sequences).
func (g *ExprGen) IntList(depth int) mt.Expr {
	r := g.R
	switch r.Intn(5) {
	case 0:
		k := r.Range(0, 4)
		items := make([]mt.Expr, k)
		for i := range items {
			items[i] = g.Int(depth)
		}
		return mt.Arr{Items: items}
	case 1:
		g.Ops++
		return mt.Cond{C: g.Bool(depth), A: g.intListAtom(), B: g.intListAtom()}
	case 2:
		a := int64(r.Range(-3, 5))
		return mt.Call{Name: "range", Args: []mt.Expr{mt.I(a), g.bin("+", mt.I(a), mt.I(int64(r.Range(0, 4))))}}
	default:
		return g.intListAtom()
	}
}

// ErrIsUndefined tells harness bugs from expected failures.
func ErrIsUndefined(err error) bool { return errors.Is(err, mt.ErrUndefinedBehaviour) }

func itoa(n int64) string { return strconv.FormatInt(n, 10) }
