package props

import (
	"encoding/json"
	"fmt"
	"math"
	"math/big"
	"reflect"
	"regexp"
	"sort"
	"strconv"
	"strings"
	"unicode/utf8"

	"verifharness/internal/core"
	"verifharness/internal/mt"
)

// C19 — built-in filters satisfy their defining equations for every input.
type c19 struct{ base }

func init() {
	Register(&c19{base{
		id: "C19", level: "exploration",
		technique: "law monitors: each stated equation is a predicate over one or two engine executions (values extracted through json_encode), plus a reference implementation of Twig's slice index rules (exhaustive grid) and math/big.Rat arithmetic for abs / round / number_format",
		rule: "case = (law, input). Laws: idempotence of upper/lower/trim/capitalize; reverse involution + length preservation; sort = ordered permutation; length = for-loop count = slice(0,n) coverage, first/last = first/last element a loop observes (strings by code point); join|split round trip for separator-free strings; default replaces exactly undefined/null/''/[]/{}; merge concatenates lists, later maps win; keys lists every key once; " +
			"slice(start[,length]) for sizes 0-7 x start,length in [-9,9] + omitted on ASCII / multi-byte strings, untyped and typed lists; abs, round(precision -3..4, common/ceil/floor), number_format on integers, k/2^n, decimals with three places (off the binary grid) and halves next to 2^51; sort also on typed int lists of neighbours beyond 2^53 and typed float lists with a NaN (read back in decimal through join). Non-trivial: input is non-empty and (multi-byte, or has >= 3 elements, or is negative / fractional). Distinct = distinct (law, input).",
		assumptions: []string{
			"sort of an int list may be numeric or textual ('ordered' is not further specified); 0 and false under default are accepted either way; ties in number_format accept either neighbour; ties in round with the 'common' method go away from zero (Twig's definition of that method), ceil/floor are exact",
			"join|split is checked for single-character separators; multi-character separators are a recorded known finding (the engine's own test suite fixes split-on-any-character semantics)",
			"valid UTF-8 inputs only (values travel through json_encode)",
		},
		quick: 300000, thorough: 3000000, minQuick: 50000, minThorough: 800000,
	}})
}

func (p *c19) RequiredCounters(string) []string {
	return []string{"law:idempotence", "law:reverse", "law:sort", "law:length-first-last", "law:join-split", "law:default", "law:merge-keys", "law:slice", "law:numbers"}
}

var c19Strings = []string{"", "a", "hello", "Hello World", "  padded  ", "\t tab\n", "héllo", "éa", "日本語テキスト", "ÄÖÜ äöü ß", "o'neil mc-donald", "ǅ mixed ǆ", "MiXeD cAsE wOrDs", "x", "ab", "émile zola", "a  b   c", "😀 smile 😀", "İstanbul", "ﬁne ligature", "123 abc", "ünïcödé"}

// render one template, return output or ("", err)
func c19R(src string, ctx map[string]interface{}) (string, error, *Result) {
	res := renderFresh(map[string]string{"main": src}, "main", ctx, nil)
	if res.Panicked {
		return "", fmt.Errorf("panic: %s", res.PanicVal), &res
	}
	return res.Out, res.Err, &res
}

func c19JSON(out string) (interface{}, bool) {
	var v interface{}
	if json.Unmarshal([]byte(out), &v) != nil {
		return nil, false
	}
	return v, true
}

type c19Fail struct {
	law, what string
	cs        map[string]any
}

func (p *c19) violate(rec *core.Recorder, law, input, what string, cs map[string]any) {
	rec.Violate("law:"+law, core.SigHash("c19-"+law, input), what, cs, "")
}

func (p *c19) Run(rec *core.Recorder, seed uint64, idx int, tier string) {
	r := core.NewRand("C19", seed, idx)
	// ---- exhaustive slice grid first: sizes 0..7 × start [-9,9] × length [-9,9]+omitted × 4 carriers
	nSlice := 8 * 19 * 20 * 4
	if idx < nSlice {
		k := idx
		carrier := k % 4
		k /= 4
		li := k % 20
		k /= 20
		start := int64(k%19 - 9)
		n := k / 19
		var length *int64
		if li < 19 {
			l := int64(li - 9)
			length = &l
		}
		p.sliceCase(rec, n, start, length, carrier)
		return
	}
	idx -= nSlice
	if idx == 0 {
		// fixed regression witness (known finding), part of every run
		p.joinSplitMulti(rec)
		return
	}
	switch idx % 8 {
	case 0:
		p.idempotence(rec, r)
	case 1:
		p.reverse(rec, r)
	case 2:
		p.sortLaw(rec, r)
	case 3:
		p.lengthFirstLast(rec, r)
	case 4:
		p.joinSplit(rec, r)
	case 5:
		p.defaultLaw(rec, r)
	case 6:
		p.mergeKeys(rec, r)
	default:
		p.numbers(rec, r)
	}
}

func (p *c19) sliceCase(rec *core.Recorder, n int, start int64, length *int64, carrier int) {
	rec.Count("law:slice", 1)
	ascii := "abcdefg"[:n]
	mbRunes := []rune("é日ü😀ßxø")[:n]
	var ctxVal interface{}
	var elems []string
	switch carrier {
	case 0:
		ctxVal = ascii
		for _, c := range ascii {
			elems = append(elems, string(c))
		}
	case 1:
		ctxVal = string(mbRunes)
		for _, c := range mbRunes {
			elems = append(elems, string(c))
		}
	case 2:
		l := make([]interface{}, n)
		for i := range l {
			l[i] = fmt.Sprintf("e%d", i)
			elems = append(elems, fmt.Sprintf("e%d", i))
		}
		ctxVal = l
	default:
		l := make([]string, n)
		for i := range l {
			l[i] = fmt.Sprintf("t%d", i)
			elems = append(elems, l[i])
		}
		ctxVal = l
	}
	a, b := mt.SliceBounds(n, start, length)
	want := elems[a:b]
	args := fmt.Sprint(start)
	if length != nil {
		args += fmt.Sprintf(", %d", *length)
	}
	isStr := carrier < 2
	src := "{{ v|slice(" + args + ")|json_encode }}"
	input := fmt.Sprintf("%v|slice(%s)", ctxVal, args)
	rec.Eval("slice-grid", input, n > 0)
	out, err, res := c19R(src, map[string]interface{}{"v": ctxVal})
	cs := map[string]any{"template": src, "v": fmt.Sprintf("%#v", ctxVal)}
	if res.Panicked {
		rec.Violate("panic", "panic@"+res.Site, "engine panicked: "+res.PanicVal, cs, res.Stack)
		return
	}
	if err != nil {
		p.violate(rec, "slice", input, fmt.Sprintf("%s failed: %v", input, err), cs)
		return
	}
	got, ok := c19JSON(out)
	var gotElems []string
	if isStr {
		s, isS := got.(string)
		if !ok || !isS {
			p.violate(rec, "slice", input, fmt.Sprintf("%s gave non-string %s", input, out), cs)
			return
		}
		for _, c := range s {
			gotElems = append(gotElems, string(c))
		}
	} else {
		l, isL := got.([]interface{})
		if !ok || (!isL && got != nil) {
			p.violate(rec, "slice", input, fmt.Sprintf("%s gave non-list %s", input, out), cs)
			return
		}
		for _, e := range l {
			gotElems = append(gotElems, fmt.Sprint(e))
		}
	}
	if strings.Join(gotElems, "\x00") != strings.Join(want, "\x00") {
		p.violate(rec, "slice", input, fmt.Sprintf("%s gave %v, Twig's index rules give %v", input, gotElems, want), cs)
		return
	}
	if rec.WantSample("slice-grid") {
		rec.Sample("slice-grid", map[string]any{"expr": input, "result": gotElems})
	}
}

func (p *c19) str(r *core.Rand) string {
	if r.P(1, 3) {
		// random composition
		parts := []string{"a", "B", "é", "É", " ", "  ", "日", "-", "'", "x", "ß", "Ω", "ω", "1", "\t", "😀", "\x00", "\x0b", "\n", "\r", "\u00a0", "\u2003", "\ufeff", "\x00 ", " \x00"}
		n := r.Range(0, 8)
		var b strings.Builder
		for i := 0; i < n; i++ {
			b.WriteString(parts[r.Intn(len(parts))])
		}
		return b.String()
	}
	return c19Strings[r.Intn(len(c19Strings))]
}

func nontrivStr(s string) bool {
	return s != "" && (len(s) != utf8.RuneCountInString(s) || len(s) >= 3)
}

func (p *c19) idempotence(rec *core.Recorder, r *core.Rand) {
	rec.Count("law:idempotence", 1)
	f := []string{"upper", "lower", "trim", "capitalize"}[r.Intn(4)]
	s := p.str(r)
	input := f + ":" + s
	rec.Eval("idempotence", input, nontrivStr(s))
	ctx := map[string]interface{}{"v": s}
	o1, e1, res := c19R("{{ v|"+f+"|json_encode }}", ctx)
	o2, e2, _ := c19R("{{ v|"+f+"|"+f+"|json_encode }}", ctx)
	cs := map[string]any{"filter": f, "input": fmt.Sprintf("%q", s)}
	if res.Panicked {
		rec.Violate("panic", "panic@"+res.Site, "engine panicked: "+res.PanicVal, cs, res.Stack)
		return
	}
	if e1 != nil || e2 != nil || o1 != o2 {
		p.violate(rec, "idempotence", input, fmt.Sprintf("%s is not idempotent on %q: once %s, twice %s (errors %v %v)", f, s, o1, o2, e1, e2), cs)
		return
	}
	if rec.WantSample("idempotence") {
		rec.Sample("idempotence", map[string]any{"filter": f, "input": s, "once": o1})
	}
}

func (p *c19) list(r *core.Rand) ([]interface{}, interface{}, string) {
	n := r.Range(0, 7)
	kind := r.Intn(5)
	var want []interface{}
	var carrier interface{}
	switch kind {
	case 0:
		l := make([]interface{}, n)
		for i := range l {
			l[i] = []string{"b", "a", "é", "B", "aa", "z", "10", "9"}[r.Intn(8)]
		}
		want, carrier = l, l
	case 1:
		l := make([]string, n)
		for i := range l {
			l[i] = []string{"delta", "alpha", "Charlie", "bravo", "écho", "alpha"}[r.Intn(6)]
			want = append(want, l[i])
		}
		carrier = l
	case 2:
		l := make([]int, n)
		for i := range l {
			l[i] = r.Range(-20, 120)
			want = append(want, float64(l[i]))
		}
		carrier = l
	case 3:
		l := make([]interface{}, n)
		for i := range l {
			l[i] = r.Range(-20, 120)
			want = append(want, float64(l[i].(int)))
		}
		carrier = l
	default:
		l := make([]float64, n)
		for i := range l {
			l[i] = float64(r.Range(-40, 40)) / 4
			want = append(want, l[i])
		}
		carrier = l
	}
	if want == nil {
		want = []interface{}{}
	}
	name := []string{"iface-strings", "[]string", "[]int", "iface-ints", "[]float64"}[kind]
	if r.P(1, 6) {
		// the application hands over a pointer to the list: it prints, indexes and iterates as the list, and the filters agree
		pv := reflect.New(reflect.TypeOf(carrier))
		pv.Elem().Set(reflect.ValueOf(carrier))
		carrier = pv.Interface()
	}
	return want, carrier, name
}

func jsonList(out string) ([]interface{}, bool) {
	v, ok := c19JSON(out)
	if !ok {
		return nil, false
	}
	if v == nil {
		return []interface{}{}, true
	}
	l, ok := v.([]interface{})
	return l, ok
}

func canonList(l []interface{}) string { b, _ := json.Marshal(l); return string(b) }

func (p *c19) reverse(rec *core.Recorder, r *core.Rand) {
	rec.Count("law:reverse", 1)
	if r.P(1, 6) {
		// strings with bytes that are never part of valid UTF-8 (0xC0, 0xC1, 0xF5-0xFF): each counts as one character, so
		// reversing keeps the byte length and reversing twice restores the string (compared as raw bytes, not through JSON)
		parts := []string{"a", "é", "日", "😀", "\xff", "\xfe", "\xc0", "\xf8", " ", "z"}
		var b strings.Builder
		for i, n := 0, r.Range(1, 7); i < n; i++ {
			b.WriteString(parts[r.Intn(len(parts))])
		}
		s := b.String()
		rec.Eval("reverse-bytes", s, true)
		rec.Count("reverse-on-invalid-utf8", 1)
		ctx := map[string]interface{}{"v": s}
		o1, e1, res := c19R("{{ v|reverse }}", ctx)
		o2, e2, _ := c19R("{{ v|reverse|reverse }}", ctx)
		cs := map[string]any{"input": fmt.Sprintf("%q", s)}
		if res.Panicked {
			rec.Violate("panic", "panic@"+res.Site, "engine panicked: "+res.PanicVal, cs, res.Stack)
			return
		}
		if e1 != nil || e2 != nil || o2 != s || len(o1) != len(s) {
			p.violate(rec, "reverse", "b:"+s, fmt.Sprintf("reverse is not a length-preserving involution on %q: reverse %q, twice %q (%v %v)", s, o1, o2, e1, e2), cs)
		}
		return
	}
	if r.Bool() {
		s := p.str(r)
		rec.Eval("reverse-string", s, nontrivStr(s))
		ctx := map[string]interface{}{"v": s}
		o1, e1, res := c19R("{{ v|reverse|json_encode }}", ctx)
		o2, e2, _ := c19R("{{ v|reverse|reverse|json_encode }}", ctx)
		cs := map[string]any{"input": fmt.Sprintf("%q", s)}
		if res.Panicked {
			rec.Violate("panic", "panic@"+res.Site, "engine panicked: "+res.PanicVal, cs, res.Stack)
			return
		}
		rv, ok1 := c19JSON(o1)
		rrv, ok2 := c19JSON(o2)
		rs, _ := rv.(string)
		rrs, _ := rrv.(string)
		if e1 != nil || e2 != nil || !ok1 || !ok2 || rrs != s || utf8.RuneCountInString(rs) != utf8.RuneCountInString(s) {
			p.violate(rec, "reverse", "s:"+s, fmt.Sprintf("reverse is not a length-preserving involution on %q: reverse %q, twice %q (%v %v)", s, rs, rrs, e1, e2), cs)
		}
		return
	}
	want, carrier, kind := p.list(r)
	rec.Eval("reverse-list", kind+canonList(want), len(want) >= 3)
	ctx := map[string]interface{}{"v": carrier}
	o1, e1, res := c19R("{{ v|reverse|json_encode }}", ctx)
	o2, e2, _ := c19R("{{ v|reverse|reverse|json_encode }}", ctx)
	cs := map[string]any{"input": fmt.Sprintf("%#v", carrier)}
	if res.Panicked {
		rec.Violate("panic", "panic@"+res.Site, "engine panicked: "+res.PanicVal, cs, res.Stack)
		return
	}
	l1, ok1 := jsonList(o1)
	l2, ok2 := jsonList(o2)
	rev := make([]interface{}, len(want))
	for i := range want {
		rev[len(want)-1-i] = want[i]
	}
	if e1 != nil || e2 != nil || !ok1 || !ok2 || canonList(l2) != canonList(want) || canonList(l1) != canonList(rev) {
		p.violate(rec, "reverse", kind+canonList(want), fmt.Sprintf("reverse on %s %s: once %s, twice %s (%v %v)", kind, canonList(want), o1, o2, e1, e2), cs)
	}
}

// sortExact: numbers that the JSON route of sortLaw cannot tell apart — integers beyond 2^53 (neighbours share a float64)
// and, in typed float lists, a NaN between the numbers. Read back through join in decimal; the comparable elements must
// come out in non-decreasing order and the result must be a permutation of the input.
func (p *c19) sortExact(rec *core.Recorder, r *core.Rand) {
	n := r.Range(2, 6)
	var carrier interface{}
	var wantParts []string
	var kind string
	switch r.Intn(3) {
	case 0, 1:
		base := []int{1 << 53, 1 << 60, -(1 << 53), 1<<62 + 12345, -(1 << 61)}[r.Intn(5)]
		l := make([]int, n)
		for i := range l {
			l[i] = base + r.Range(-3, 3)
		}
		// (typed lists only: a []interface{} list is sorted by string representation, which the repository's own test pins)
		kind, carrier = "[]int-beyond-2^53", l
		sorted := append([]int(nil), l...)
		sort.Ints(sorted)
		for _, v := range sorted {
			wantParts = append(wantParts, fmt.Sprint(v))
		}
	default:
		l := make([]float64, n+1)
		for i := range l {
			l[i] = float64(r.Range(-40, 40)) / 4
		}
		l[r.Intn(len(l))] = math.NaN()
		kind, carrier = "[]float64-with-NaN", l
	}
	key := kind + fmt.Sprint(carrier)
	rec.Eval("sort-exact", key, true)
	rec.Count("sort-exact:"+kind, 1)
	out, err, res := c19R("{{ v|sort|join(',') }}", map[string]interface{}{"v": carrier})
	cs := map[string]any{"input": fmt.Sprintf("%#v", carrier), "output": out}
	if res.Panicked {
		rec.Violate("panic", "panic@"+res.Site, "engine panicked: "+res.PanicVal, cs, res.Stack)
		return
	}
	if err != nil {
		p.violate(rec, "sort", key, fmt.Sprintf("sort failed on %s %v: %v", kind, carrier, err), cs)
		return
	}
	if wantParts != nil {
		if out != strings.Join(wantParts, ",") {
			p.violate(rec, "sort", key, fmt.Sprintf("sort of %s %v gives %s, an ordered permutation is %s", kind, carrier, out, strings.Join(wantParts, ",")), cs)
		}
		return
	}
	in := carrier.([]float64)
	parts := strings.Split(out, ",")
	var gotNum, wantNum []float64
	nan := 0
	for _, q := range parts {
		f, e := strconv.ParseFloat(q, 64)
		if e != nil {
			p.violate(rec, "sort", key, fmt.Sprintf("sort of %s %v gives %s: %q is not a number", kind, in, out, q), cs)
			return
		}
		if f != f {
			nan++
		} else {
			gotNum = append(gotNum, f)
		}
	}
	for _, f := range in {
		if f == f {
			wantNum = append(wantNum, f)
		}
	}
	sort.Float64s(wantNum)
	if nan != len(in)-len(wantNum) || fmt.Sprint(gotNum) != fmt.Sprint(wantNum) {
		p.violate(rec, "sort", key, fmt.Sprintf("sort of %s %v gives %s: its numbers are not the input's numbers in order (%v)", kind, in, out, wantNum), cs)
	}
}

func (p *c19) sortLaw(rec *core.Recorder, r *core.Rand) {
	rec.Count("law:sort", 1)
	if r.P(1, 5) {
		p.sortExact(rec, r)
		return
	}
	want, carrier, kind := p.list(r)
	rec.Eval("sort", kind+canonList(want), len(want) >= 3)
	out, err, res := c19R("{{ v|sort|json_encode }}", map[string]interface{}{"v": carrier})
	cs := map[string]any{"input": fmt.Sprintf("%#v", carrier)}
	if res.Panicked {
		rec.Violate("panic", "panic@"+res.Site, "engine panicked: "+res.PanicVal, cs, res.Stack)
		return
	}
	got, ok := jsonList(out)
	if err != nil || !ok {
		p.violate(rec, "sort", kind+canonList(want), fmt.Sprintf("sort failed on %s %s: %v %s", kind, canonList(want), err, out), cs)
		return
	}
	// permutation
	ms := func(l []interface{}) string {
		parts := make([]string, len(l))
		for i, e := range l {
			b, _ := json.Marshal(e)
			parts[i] = string(b)
		}
		sort.Strings(parts)
		return strings.Join(parts, ",")
	}
	if ms(got) != ms(want) {
		p.violate(rec, "sort", kind+canonList(want), fmt.Sprintf("sort result %s is not a permutation of %s", canonList(got), canonList(want)), cs)
		return
	}
	// ordered
	numeric, textual := true, true
	for i := 1; i < len(got); i++ {
		a, aok := got[i-1].(float64)
		b, bok := got[i].(float64)
		if aok && bok {
			if a > b {
				numeric = false
			}
			if fmt.Sprint(a) > fmt.Sprint(b) {
				textual = false
			}
			continue
		}
		numeric = false
		as, _ := got[i-1].(string)
		bs, _ := got[i].(string)
		if as > bs {
			textual = false
		}
	}
	isNum := kind == "[]int" || kind == "iface-ints" || kind == "[]float64"
	if (isNum && !numeric && !textual) || (!isNum && !textual) {
		p.violate(rec, "sort", kind+canonList(want), fmt.Sprintf("sort result %s of %s is not ordered", canonList(got), canonList(want)), cs)
		return
	}
	if rec.WantSample("sort") {
		rec.Sample("sort", map[string]any{"input": canonList(want), "sorted": canonList(got), "carrier": kind})
	}
}

func (p *c19) lengthFirstLast(rec *core.Recorder, r *core.Rand) {
	rec.Count("law:length-first-last", 1)
	if r.P(1, 5) {
		// maps: length, first and last against what a for loop over the map observes
		n := r.Range(0, 5)
		keys := []string{"b", "a", "z", "10", "9", "é", "k"}
		var carrier interface{}
		switch r.Intn(3) {
		case 0:
			m := map[string]interface{}{}
			for i := 0; i < n; i++ {
				m[keys[r.Intn(len(keys))]] = r.Range(0, 99)
			}
			carrier = m
		case 1:
			m := map[string]int{}
			for i := 0; i < n; i++ {
				m[keys[r.Intn(len(keys))]] = r.Range(0, 99)
			}
			carrier = m
		default:
			m := map[int]string{}
			for i := 0; i < n; i++ {
				m[r.Range(-3, 12)] = keys[r.Intn(len(keys))]
			}
			carrier = m
		}
		input := fmt.Sprintf("map:%v", carrier)
		rec.Eval("length-first-last-map", input, reflect.ValueOf(carrier).Len() >= 2)
		rec.Count("maps-under-first-last", 1)
		src := "{{ v|length }}|{% set n = 0 %}{% for x in v %}{% set n = n + 1 %}{% endfor %}{{ n }}|{{ v|first|json_encode }}|{% for x in v %}{% if loop.first %}{{ x|json_encode }}{% endif %}{% endfor %}|{{ v|last|json_encode }}|{% for x in v %}{% if loop.last %}{{ x|json_encode }}{% endif %}{% endfor %}"
		out, err, res := c19R(src, map[string]interface{}{"v": carrier})
		cs := map[string]any{"input": fmt.Sprintf("%#v", carrier), "template": src}
		if res.Panicked {
			rec.Violate("panic", "panic@"+res.Site, "engine panicked: "+res.PanicVal, cs, res.Stack)
			return
		}
		parts := strings.Split(out, "|")
		if err != nil || len(parts) != 6 {
			p.violate(rec, "length-first-last", input, fmt.Sprintf("template failed on %s: %v %q", input, err, out), cs)
			return
		}
		if parts[0] != parts[1] || parts[0] != fmt.Sprint(reflect.ValueOf(carrier).Len()) {
			p.violate(rec, "length-first-last", input, fmt.Sprintf("length disagrees with what a loop observes on %s: length=%s, loop iterations=%s", input, parts[0], parts[1]), cs)
			return
		}
		if parts[0] != "0" && (parts[2] != parts[3] || parts[4] != parts[5]) {
			p.violate(rec, "length-first-last", input, fmt.Sprintf("first/last disagree with the loop on %s: first=%s loop-first=%s last=%s loop-last=%s", input, parts[2], parts[3], parts[4], parts[5]), cs)
		}
		return
	}
	var ctxVal interface{}
	var input string
	nt := false
	if r.Bool() {
		s := p.str(r)
		ctxVal, input, nt = s, "s:"+s, nontrivStr(s)
	} else {
		want, carrier, kind := p.list(r)
		ctxVal, input, nt = carrier, kind+canonList(want), len(want) >= 3
	}
	rec.Eval("length-first-last", input, nt)
	src := "{{ v|length }}|{% set n = 0 %}{% for x in v %}{% set n = n + 1 %}{% endfor %}{{ n }}|{{ v|slice(0, v|length)|length }}|" +
		"{{ v|first|json_encode }}|{% for x in v %}{% if loop.first %}{{ x|json_encode }}{% endif %}{% endfor %}|{{ v|last|json_encode }}|{% for x in v %}{% if loop.last %}{{ x|json_encode }}{% endif %}{% endfor %}|{{ (v|slice(0, v|length) == v) ? 'same' : 'diff' }}"
	out, err, res := c19R(src, map[string]interface{}{"v": ctxVal})
	cs := map[string]any{"input": fmt.Sprintf("%#v", ctxVal), "template": src}
	if res.Panicked {
		rec.Violate("panic", "panic@"+res.Site, "engine panicked: "+res.PanicVal, cs, res.Stack)
		return
	}
	parts := strings.Split(out, "|")
	if err != nil || len(parts) != 8 {
		p.violate(rec, "length-first-last", input, fmt.Sprintf("template failed on %s: %v %q", input, err, out), cs)
		return
	}
	if parts[0] != parts[1] || parts[0] != parts[2] {
		p.violate(rec, "length-first-last", input, fmt.Sprintf("length disagrees with what a loop / slice observes on %s: length=%s, loop iterations=%s, slice(0,n)|length=%s", input, parts[0], parts[1], parts[2]), cs)
		return
	}
	if parts[0] != "0" {
		norm := func(s string) string {
			if s == "" {
				return `""`
			}
			return s
		}
		if norm(parts[3]) != norm(parts[4]) || norm(parts[5]) != norm(parts[6]) {
			p.violate(rec, "length-first-last", input, fmt.Sprintf("first/last disagree with the loop on %s: first=%s loop-first=%s last=%s loop-last=%s", input, parts[3], parts[4], parts[5], parts[6]), cs)
			return
		}
	}
	if rec.WantSample("length-first-last") {
		rec.Sample("length-first-last", map[string]any{"input": input, "observations": out})
	}
}

// joinSplitMulti is the one canonical multi-character-separator case (a recorded known finding:
// the engine splits on any character of the separator, and its own test suite pins that).
func (p *c19) joinSplitMulti(rec *core.Recorder) {
	l := []interface{}{"a b", "c"}
	sep := ", "
	rec.Eval("join-split-multichar", sep+canonList(l), true)
	out, err, res := c19R("{{ v|join(sep)|split(sep)|json_encode }}", map[string]interface{}{"v": l, "sep": sep})
	cs := map[string]any{"list": canonList(l), "sep": sep}
	if res.Panicked {
		rec.Violate("panic", "panic@"+res.Site, "engine panicked: "+res.PanicVal, cs, res.Stack)
		return
	}
	got, ok := jsonList(out)
	if err != nil || !ok || canonList(got) != canonList(l) {
		rec.Violate("law:join-split", "join-split:multi-character-separator:['a b','c']|join(', ')|split(', ')",
			fmt.Sprintf("join(%q)|split(%q) does not restore %s: got %s (%v)", sep, sep, canonList(l), out, err), cs, "")
	}
}

type c19Glue string

func (p *c19) joinSplit(rec *core.Recorder, r *core.Rand) {
	rec.Count("law:join-split", 1)
	seps := []string{",", ";", "|", "-", " ", "/", ":", "#", "x", "é"}
	sep := seps[r.Intn(len(seps))]
	n := r.Range(1, 6)
	l := make([]interface{}, n)
	for i := range l {
		w := []string{"alpha", "b", "", "two words", "é", "日本", "c3", "Zed", "q-q", "m;m"}[r.Intn(10)]
		w = strings.ReplaceAll(w, sep, "")
		l[i] = w
	}
	if n == 1 && l[0] == "" {
		l[0] = "solo"
	}
	var sepVal interface{} = sep
	if core.Hash64(sep, canonList(l), "glue-kind")%4 == 0 {
		// the same separator value, of a type that is not a Go string: whatever text join makes of it, split makes the same
		for i := range l {
			l[i] = []string{"alpha", "b", "é", "日本", "Zed", "qq"}[(i*7+len(sep)+n)%6]
		}
		sepVal = []interface{}{0, 7, c19Glue("-"), 2.5, true, int64(-3), c19Glue("::")}[core.Hash64(canonList(l), sep)%7]
		sep = fmt.Sprintf("%T(%v)", sepVal, sepVal)
		rec.Count("separators-that-are-not-strings", 1)
	}
	input := sep + canonList(l)
	rec.Eval("join-split", input, n >= 3)
	src := "{{ v|join(sep)|split(sep)|json_encode }}"
	out, err, res := c19R(src, map[string]interface{}{"v": l, "sep": sepVal})
	cs := map[string]any{"list": canonList(l), "sep": sep}
	if res.Panicked {
		rec.Violate("panic", "panic@"+res.Site, "engine panicked: "+res.PanicVal, cs, res.Stack)
		return
	}
	got, ok := jsonList(out)
	if err != nil || !ok || canonList(got) != canonList(l) {
		p.violate(rec, "join-split", input, fmt.Sprintf("join(%q)|split(%q) does not restore %s: got %s (%v)", sep, sep, canonList(l), out, err), cs)
		return
	}
	if rec.WantSample("join-split") {
		rec.Sample("join-split", cs)
	}
}

func (p *c19) defaultLaw(rec *core.Recorder, r *core.Rand) {
	rec.Count("law:default", 1)
	type dc struct {
		name     string
		ctx      map[string]interface{}
		expr     string
		replaced int // 1 yes, 0 no, -1 either
	}
	cases := []dc{
		{"undefined", nil, "nosuchvar", 1}, {"null", map[string]interface{}{"v": nil}, "v", 1}, {"null-literal", nil, "null", 1}, {"empty-string", map[string]interface{}{"v": ""}, "v", 1},
		{"empty-list", map[string]interface{}{"v": []interface{}{}}, "v", 1}, {"empty-map", map[string]interface{}{"v": map[string]interface{}{}}, "v", 1}, {"empty-typed-slice", map[string]interface{}{"v": []string{}}, "v", 1},
		{"empty-typed-map", map[string]interface{}{"v": map[string]int{}}, "v", 1}, {"empty-literal-list", nil, "[]", 1}, {"empty-literal-hash", nil, "{}", 1}, {"undefined-attr", map[string]interface{}{"v": map[string]interface{}{"a": 1}}, "v.nokey", 1},
		{"string", map[string]interface{}{"v": "x"}, "v", 0}, {"space", map[string]interface{}{"v": " "}, "v", 0}, {"string-zero", map[string]interface{}{"v": "0"}, "v", -1}, {"int", map[string]interface{}{"v": 7}, "v", 0}, {"neg", map[string]interface{}{"v": -1}, "v", 0},
		{"float", map[string]interface{}{"v": 0.5}, "v", 0}, {"true", map[string]interface{}{"v": true}, "v", 0}, {"list", map[string]interface{}{"v": []interface{}{0}}, "v", 0}, {"map", map[string]interface{}{"v": map[string]interface{}{"k": nil}}, "v", 0},
		{"typed-slice", map[string]interface{}{"v": []int{0}}, "v", 0}, {"zero", map[string]interface{}{"v": 0}, "v", -1}, {"false", map[string]interface{}{"v": false}, "v", -1}, {"float-zero", map[string]interface{}{"v": 0.0}, "v", -1},
	}
	c := cases[r.Intn(len(cases))]
	pos := r.Intn(3)
	src := []string{"{{ (%E|default('DFLT'))|json_encode }}", "{% set q = %E|default('DFLT') %}{{ q|json_encode }}", "{{ (%E|default('DFLT')|default('SECOND'))|json_encode }}"}[pos]
	src = strings.ReplaceAll(src, "%E", c.expr)
	rec.Eval("default", c.name+fmt.Sprint(pos), true)
	out, err, res := c19R(src, c.ctx)
	cs := map[string]any{"case": c.name, "template": src}
	if res.Panicked {
		rec.Violate("panic", "panic@"+res.Site, "engine panicked: "+res.PanicVal, cs, res.Stack)
		return
	}
	replaced := out == `"DFLT"`
	if err != nil || (c.replaced == 1 && !replaced) || (c.replaced == 0 && replaced) {
		p.violate(rec, "default", c.name, fmt.Sprintf("default on %s: got %s err=%v, expected replaced=%v", c.name, out, err, c.replaced == 1), cs)
		return
	}
	if rec.WantSample("default") {
		rec.Sample("default", map[string]any{"case": c.name, "output": out})
	}
}

func (p *c19) mergeKeys(rec *core.Recorder, r *core.Rand) {
	rec.Count("law:merge-keys", 1)
	if r.P(1, 4) {
		// two concatenations from one base: each result is base + its own argument, and the base stays what it was
		a, _, _ := p.list(r)
		b, cb, _ := p.list(r)
		c, cc, _ := p.list(r)
		spare := append(make([]interface{}, 0, len(a)+8), a...)
		n := r.Range(1, 5)
		k := r.Intn(len(a) + 1)
		var baseSrc string
		base := []interface{}{}
		switch r.Intn(6) {
		case 0:
			baseSrc, base = "a", append(base, a...)
		case 1:
			baseSrc = fmt.Sprintf("range(1, %d)", n)
			for i := 1; i <= n; i++ {
				base = append(base, float64(i))
			}
		case 2:
			baseSrc, base = fmt.Sprintf("a|slice(0, %d)", k), append(base, a[:k]...)
		case 3:
			baseSrc, base = "a|merge([])", append(base, a...)
		case 4:
			baseSrc = "a|reverse"
			for i := len(a) - 1; i >= 0; i-- {
				base = append(base, a[i])
			}
		default:
			baseSrc, base = "a|merge(['t'])|slice(0, "+fmt.Sprint(len(a))+")", append(base, a...)
		}
		src := "{% set base = " + baseSrc + " %}{% set x = base|merge(b) %}{% set y = base|merge(c) %}{{ x|json_encode }}|{{ y|json_encode }}|{{ base|json_encode }}|{{ x|json_encode }}"
		input := "twice" + baseSrc + canonList(a) + canonList(b) + canonList(c)
		rec.Eval("merge-twice", input, len(base) > 0)
		out, err, res := c19R(src, map[string]interface{}{"a": spare, "b": cb, "c": cc})
		cs := map[string]any{"template": src, "a": fmt.Sprintf("%#v", a), "b": fmt.Sprintf("%#v", cb), "c": fmt.Sprintf("%#v", cc)}
		if res.Panicked {
			rec.Violate("panic", "panic@"+res.Site, "engine panicked: "+res.PanicVal, cs, res.Stack)
			return
		}
		wants := []string{canonList(append(append([]interface{}{}, base...), b...)), canonList(append(append([]interface{}{}, base...), c...)), canonList(base), canonList(append(append([]interface{}{}, base...), b...))}
		parts := strings.Split(out, "]|")
		if err != nil || len(parts) != 4 {
			rec.Count("merge-twice-unparsed", 1)
			rec.Notes["merge-twice-unparsed"] = core.Trunc(fmt.Sprintf("%v | %s | %s", err, src, out), 300)
			return
		}
		for i, pt := range parts {
			if i < 3 {
				pt += "]"
			}
			got, ok := jsonList(pt)
			if !ok || canonList(got) != wants[i] {
				p.violate(rec, "merge-keys", input, fmt.Sprintf("two merges from one base: part %d of %q gave %s, want %s (base %s, b %s, c %s)", i, src, pt, wants[i], canonList(base), canonList(b), canonList(c)), cs)
				return
			}
		}
		return
	}
	if r.Bool() {
		a, ca, ka := p.list(r)
		b, cb, kb := p.list(r)
		if ka != kb && !(strings.HasPrefix(ka, "iface") && strings.HasPrefix(kb, "iface")) {
			// mixed carriers: still a concatenation
		}
		input := ka + canonList(a) + kb + canonList(b)
		rec.Eval("merge-lists", input, len(a)+len(b) >= 3)
		out, err, res := c19R("{{ a|merge(b)|json_encode }}|{{ a|merge(b, a)|length }}", map[string]interface{}{"a": ca, "b": cb})
		cs := map[string]any{"a": fmt.Sprintf("%#v", ca), "b": fmt.Sprintf("%#v", cb)}
		if res.Panicked {
			rec.Violate("panic", "panic@"+res.Site, "engine panicked: "+res.PanicVal, cs, res.Stack)
			return
		}
		parts := strings.SplitN(out, "]|", 2)
		got, ok := jsonList(strings.SplitN(out, "|", 2)[0])
		if len(parts) == 2 {
			got, ok = jsonList(parts[0] + "]")
		}
		want := append(append([]interface{}{}, a...), b...)
		if err != nil || !ok || canonList(got) != canonList(want) {
			p.violate(rec, "merge-keys", input, fmt.Sprintf("merge does not concatenate: %s merge %s gave %s (%v), want %s", canonList(a), canonList(b), out, err, canonList(want)), cs)
		}
		return
	}
	keys := []string{"a", "b", "c", "d", "é", "k1", "10", "9"}
	mk := func() map[string]interface{} {
		m := map[string]interface{}{}
		for i := 0; i < r.Range(0, 5); i++ {
			m[keys[r.Intn(len(keys))]] = r.Range(1, 99)
		}
		return m
	}
	a, b, c := mk(), mk(), mk()
	var ca, cb interface{} = a, b
	typedA := false
	if r.P(1, 3) {
		ta := map[string]int{}
		for k, v := range a {
			ta[k] = v.(int)
		}
		ca = ta
		typedA = true
	}
	input := fmt.Sprint(a, b, c)
	rec.Eval("merge-maps-keys", input, len(a)+len(b) >= 3)
	out, err, res := c19R("{{ a|merge(b)|json_encode }}|{{ a|merge(b, c)|json_encode }}|{{ a|keys|json_encode }}|{{ a|merge(b)|keys|json_encode }}", map[string]interface{}{"a": ca, "b": cb, "c": c})
	cs := map[string]any{"a": fmt.Sprint(a), "b": fmt.Sprint(b), "c": fmt.Sprint(c), "typed_a": typedA}
	if res.Panicked {
		rec.Violate("panic", "panic@"+res.Site, "engine panicked: "+res.PanicVal, cs, res.Stack)
		return
	}
	parts := strings.Split(out, "|")
	if err != nil || len(parts) != 4 {
		p.violate(rec, "merge-keys", input, fmt.Sprintf("merge/keys template failed: %v %q", err, out), cs)
		return
	}
	wantAB := map[string]interface{}{}
	for k, v := range a {
		wantAB[k] = float64(v.(int))
	}
	for k, v := range b {
		wantAB[k] = float64(v.(int))
	}
	wantABC := map[string]interface{}{}
	for k, v := range wantAB {
		wantABC[k] = v
	}
	for k, v := range c {
		wantABC[k] = float64(v.(int))
	}
	cm := func(m map[string]interface{}) string { b, _ := json.Marshal(m); return string(b) }
	g1, ok1 := c19JSON(parts[0])
	g2, ok2 := c19JSON(parts[1])
	m1, _ := g1.(map[string]interface{})
	m2, _ := g2.(map[string]interface{})
	if m1 == nil {
		m1 = map[string]interface{}{}
	}
	if m2 == nil {
		m2 = map[string]interface{}{}
	}
	if !ok1 || !ok2 || cm(m1) != cm(wantAB) || cm(m2) != cm(wantABC) {
		p.violate(rec, "merge-keys", input, fmt.Sprintf("merge of maps: later maps must win: a=%v b=%v c=%v gave %s and %s, want %s and %s", a, b, c, parts[0], parts[1], cm(wantAB), cm(wantABC)), cs)
		return
	}
	keySet := func(js string) (string, bool, bool) {
		l, ok := jsonList(js)
		if !ok {
			return "", false, false
		}
		seen := map[string]bool{}
		dup := false
		var ks []string
		for _, e := range l {
			k := fmt.Sprint(e)
			if seen[k] {
				dup = true
			}
			seen[k] = true
			ks = append(ks, k)
		}
		sort.Strings(ks)
		return strings.Join(ks, ","), dup, true
	}
	ka, dupA, okA := keySet(parts[2])
	kab, dupAB, okAB := keySet(parts[3])
	wantKA := strings.Join(sortedKeys(a), ",")
	wantKAB := strings.Join(sortedKeys(wantAB), ",")
	if !okA || !okAB || dupA || dupAB || ka != wantKA || kab != wantKAB {
		p.violate(rec, "merge-keys", input, fmt.Sprintf("keys must list every key exactly once: a=%v gave %s (want %s); a|merge(b) gave %s (want %s)", a, parts[2], wantKA, parts[3], wantKAB), cs)
	}
}

type c19Cents int64
type c19Ratio float64

var reGrouped = regexp.MustCompile(`^-?\d{1,3}(,\d{3})*(\.\d+)?$`)

func (p *c19) numbers(rec *core.Recorder, r *core.Rand) {
	rec.Count("law:numbers", 1)
	// value k / 2^n
	den := int64(1) << uint(r.Intn(7))
	num := int64(r.Range(-400000, 400000))
	if r.P(1, 4) {
		num = int64(r.Range(-50, 50)) * den
	}
	if r.P(1, 5) {
		// an exact tie at precision 0: k + 1/2
		den = 2
		num = int64(2*r.Range(-300, 300) + 1)
	}
	if core.Hash64(fmt.Sprint(num, den), "below-one")%6 == 0 {
		// magnitudes below one (and far below): what is printed may be a zero, a unit of the last place, or a sign
		den = int64(1) << uint(1+int(core.Hash64(fmt.Sprint(num), "den")%10))
		num = num % den
		if num == 0 {
			num = -1
		}
	}
	bigInt := r.P(1, 8)
	if bigInt {
		// integers beyond 2^53, where float64 no longer holds every integer
		den = 1
		num = (int64(1)<<53 + int64(r.Intn(1<<30))*int64(r.Range(1, 500)) + int64(r.Intn(9))) * int64([]int{1, -1}[r.Intn(2)])
		rec.Count("integers-beyond-2^53", 1)
	}
	v := new(big.Rat).SetFrac64(num, den)
	f, _ := v.Float64()
	var ctxVal interface{} = f
	if den == 1 && (r.Bool() || bigInt) {
		ctxVal = int(num)
		if bigInt && r.Bool() {
			ctxVal = num // int64
		}
		if !bigInt && num >= -100 && num <= 100 && r.Bool() {
			// every integer kind is a number
			ctxVal = []interface{}{int8(num), int16(num), int32(num), int64(num)}[r.Intn(4)]
			if num >= 0 && r.Bool() {
				ctxVal = []interface{}{uint8(num), uint16(num), uint32(num), uint(num), uint64(num)}[r.Intn(5)]
			}
			rec.Count("typed-small-integers", 1)
		}
	}
	if r.P(1, 25) {
		// the smallest and largest values of the sized integer kinds
		lim := []struct {
			n int64
			v interface{}
		}{{-128, int8(-128)}, {127, int8(127)}, {-32768, int16(-32768)}, {-2147483648, int32(-2147483648)}, {2147483647, int32(2147483647)}, {255, uint8(255)}, {65535, uint16(65535)}, {4294967295, uint32(4294967295)}, {-127, int8(-127)}}[r.Intn(9)]
		num, den, ctxVal = lim.n, 1, lim.v
		v = new(big.Rat).SetFrac64(num, den)
		rec.Count("integer-kind-limits", 1)
	}
	if r.P(1, 25) {
		// named number types are numbers
		if den == 1 {
			ctxVal = c19Cents(num)
		} else {
			ctxVal = c19Ratio(f)
		}
		rec.Count("named-number-types", 1)
	}
	if r.P(1, 40) {
		// floats beyond the int range: rounding them gives the same whole number back
		num, den = int64(r.Range(1, 9)), 1
		// (d x 10^19 .. 10^21 are exact float64 values)
		exp10 := int64(19 + core.Hash64(fmt.Sprint(num, "exp"))%3)
		hp := 1 + core.Hash64(fmt.Sprint(num, "prec"))%4
		v19 := new(big.Rat).SetFrac(new(big.Int).Mul(big.NewInt(num), new(big.Int).Exp(big.NewInt(10), big.NewInt(exp10), nil)), big.NewInt(1))
		if r.Bool() {
			v19.Neg(v19)
		}
		f19, _ := v19.Float64()
		out, err, res := c19R(fmt.Sprintf("{{ v|round }}|{{ v|abs }}|{{ v|round(%d) }}|{{ v|round(%d, 'floor') }}|{{ v|round(%d, 'ceil') }}", hp, hp, hp), map[string]interface{}{"v": f19})
		rec.Eval("numbers", "huge:"+v19.RatString(), true)
		cs := map[string]any{"value": v19.RatString()}
		if res.Panicked {
			rec.Violate("panic", "panic@"+res.Site, "engine panicked: "+res.PanicVal, cs, res.Stack)
			return
		}
		parts := strings.Split(out, "|")
		ok := err == nil && len(parts) == 5
		if ok {
			rv, ok1 := new(big.Rat).SetString(parts[0])
			av, ok2 := new(big.Rat).SetString(parts[1])
			ok = ok1 && ok2 && rv.Cmp(v19) == 0 && av.Cmp(new(big.Rat).Abs(v19)) == 0
			for _, part := range parts[2:] {
				// a whole number rounded to some decimal places is itself
				pv, okp := new(big.Rat).SetString(part)
				ok = ok && okp && pv.Cmp(v19) == 0
			}
		}
		if !ok {
			p.violate(rec, "numbers", "huge:"+v19.RatString(), fmt.Sprintf("round / abs of %s gave %q (err=%v)", v19.RatString(), out, err), cs)
		}
		return
	}
	offGrid := false
	if r.P(1, 6) {
		// numbers off the k/2^n grid: decimals with three places (1.115, 1.005, 0.29 — the float64 next to them lies a little
		// above or below, and times a power of ten lands on either side of the tie or the whole number) and halves next to
		// 2^51 (x.5 times ten is no float64). Exact decimal arithmetic is arithmetic on the number as written, which is also
		// the shortest decimal that identifies the float64.
		var g float64
		if r.Bool() {
			k := int64(r.Range(-99999, 99999))
			g = float64(k) / 1000
			v = new(big.Rat).SetFrac64(k, 1000)
		} else {
			g = (float64(int64(1)<<51+int64(r.Intn(1<<20))) + 0.5) * float64([]int{1, -1}[r.Intn(2)])
			v = new(big.Rat).SetFloat64(g)
		}
		ctxVal, den = g, 2
		offGrid = true
		rec.Count("floats-off-the-binary-grid", 1)
	}
	prec := r.Range(0, 4)
	if r.P(1, 6) {
		// to tens, hundreds, thousands (number_format is asked for no decimals then and not compared)
		prec = -r.Range(1, 3)
		rec.Count("round-negative-precision", 1)
	}
	method := []string{"common", "ceil", "floor"}[r.Intn(3)]
	absPrec := prec
	if absPrec < 0 {
		absPrec = -absPrec
	}
	scale := new(big.Rat).SetInt(new(big.Int).Exp(big.NewInt(10), big.NewInt(int64(absPrec)), nil))
	if prec < 0 {
		scale.Inv(scale)
	}
	scaled := new(big.Rat).Mul(v, scale)
	floorOf := func(x *big.Rat) *big.Int {
		q := new(big.Int).Div(x.Num(), x.Denom()) // Euclidean division: floor for positive denominators
		return q
	}
	fl := floorOf(scaled)
	exact := new(big.Rat).SetInt(fl).Cmp(scaled) == 0
	ce := new(big.Int).Set(fl)
	if !exact {
		ce.Add(ce, big.NewInt(1))
	}
	toRat := func(i *big.Int) *big.Rat { return new(big.Rat).Quo(new(big.Rat).SetInt(i), scale) }
	// nearest candidates
	half := new(big.Rat).Add(new(big.Rat).SetInt(fl), big.NewRat(1, 2))
	var nearest []*big.Rat
	switch scaled.Cmp(half) {
	case -1:
		nearest = []*big.Rat{toRat(fl)}
	case 1:
		nearest = []*big.Rat{toRat(ce)}
	default:
		nearest = []*big.Rat{toRat(fl), toRat(ce)}
	}
	var wantRound []*big.Rat
	switch method {
	case "ceil":
		wantRound = []*big.Rat{toRat(ce)}
	case "floor":
		wantRound = []*big.Rat{toRat(fl)}
	default:
		wantRound = nearest
		if len(nearest) == 2 {
			// a tie: the "common" method is defined (Twig documentation) as rounding half away from zero
			if scaled.Sign() < 0 {
				wantRound = []*big.Rat{toRat(fl)}
			} else {
				wantRound = []*big.Rat{toRat(ce)}
			}
			rec.Count("round-ties-checked", 1)
		}
	}
	input := fmt.Sprintf("%s prec=%d %s", v.RatString(), prec, method)
	rec.Eval("numbers", input, num < 0 || den > 1)
	nfPrec := prec
	if nfPrec < 0 {
		nfPrec = 0
	}
	src := fmt.Sprintf("{{ v|abs }}|{{ v|round(%d, '%s') }}|{{ v|number_format(%d, '.', ',') }}|{{ v|round }}", prec, method, nfPrec)
	out, err, res := c19R(src, map[string]interface{}{"v": ctxVal})
	cs := map[string]any{"value": v.RatString(), "go_value": fmt.Sprintf("%#v", ctxVal), "template": src}
	if res.Panicked {
		rec.Violate("panic", "panic@"+res.Site, "engine panicked: "+res.PanicVal, cs, res.Stack)
		return
	}
	parts := strings.Split(out, "|")
	if err != nil || len(parts) != 4 {
		p.violate(rec, "numbers", input, fmt.Sprintf("number template failed: %v %q", err, out), cs)
		return
	}
	parse := func(s string) (*big.Rat, bool) { return new(big.Rat).SetString(strings.ReplaceAll(s, ",", "")) }
	in := func(x *big.Rat, cands []*big.Rat) bool {
		for _, c := range cands {
			if x.Cmp(c) == 0 {
				return true
			}
		}
		return false
	}
	absV, ok := parse(parts[0])
	if ok && offGrid {
		// a float64 prints as the shortest decimal that reads back as the same float64: compare what it reads back as
		a, _ := absV.Float64()
		w, _ := new(big.Rat).Abs(v).Float64()
		ok = a == w
		absV = new(big.Rat).Abs(v)
	}
	if !ok || absV.Cmp(new(big.Rat).Abs(v)) != 0 {
		p.violate(rec, "numbers", input, fmt.Sprintf("abs(%s) gave %s", v.RatString(), parts[0]), cs)
		return
	}
	rv, ok := parse(parts[1])
	if !ok || !in(rv, wantRound) {
		p.violate(rec, "numbers", input, fmt.Sprintf("round(%s, %d, %s) gave %s, exact arithmetic gives %v", v.RatString(), prec, method, parts[1], wantRound), cs)
		return
	}
	if prec < 0 {
		return
	}
	nf, ok := parse(parts[2])
	fracDigits := 0
	if i := strings.IndexByte(parts[2], '.'); i >= 0 {
		fracDigits = len(parts[2]) - i - 1
	}
	if !ok || !in(nf, nearest) || !reGrouped.MatchString(parts[2]) || fracDigits != prec {
		p.violate(rec, "numbers", input, fmt.Sprintf("number_format(%s, %d) gave %q, exact arithmetic gives %v with %d decimals and groups of three", v.RatString(), prec, parts[2], nearest, prec), cs)
		return
	}
	if rec.WantSample("numbers") {
		rec.Sample("numbers", map[string]any{"value": v.RatString(), "output": out})
	}
}
