package props

import (
	"bytes"
	"fmt"
	"io"
	randv2 "math/rand/v2"
	"os"
	"path/filepath"
	"reflect"
	"regexp"
	"runtime"
	"sort"
	"strings"
	"sync"
	"sync/atomic"
	"time"

	"github.com/anishathalye/porcupine"
	"github.com/semihalev/twig"

	"verifharness/internal/core"
	"verifharness/internal/mt"
)

// C02 — concurrent use of one engine is safe and equals serial use.
type c02 struct{ base }

func init() {
	Register(&c02{base{
		id: "C02", level: "exploration",
		technique: "Go race detector over concurrent client scripts on one shared engine (reports parsed from the race log, deduplicated by function pair) + fatal-exit watch + per-call comparison with serially pre-computed results + porcupine linearizability check of RegisterString/Render histories; yield injection at hook points",
		rule: "case = schedule (seed, goroutines 2-32, GOMAXPROCS, yield probability, cache mode on/off/auto-reload, loader kind array/chain/filesystem) of 40-300 calls mixing Render, RenderTo, Load, ParseTemplate+Render and RegisterString on one engine, released by a barrier on names not cached yet; every goroutine also does first parses of >4096-byte templates whose identifiers no earlier parse in the process has seen (expected output known by construction, so nothing warms the process-wide caches beforehand). " +
			"Every call's result is compared with the result of a fresh engine doing that call alone; relative includes must contain the marker of the sibling template and never that of the same-named template in another directory; even-numbered schedules run under -race. " +
			"Non-trivial: >= 4 goroutines and >= 2 kinds of call. Distinct = distinct schedule tuples.",
		assumptions: []string{
			"configuration setters and loader mutation are not called concurrently (the statement says 'once an engine is configured')",
			"the monitor adds no synchronisation inside the measured region (per-goroutine logs, monotonic clock, lock-free PRNG) so that it cannot hide races",
			"interleavings are explored, not enumerated; a schedule tuple is reproducible, its interleaving is not — the race report itself is the witness",
		},
		quick: 800, thorough: 8000, minQuick: 250, minThorough: 4000,
	}})
}

func (p *c02) Shards(tier string) int         { return 16 }
func (p *c02) CaseTimeoutSec(tier string) int { return 90 }

// HangIsViolation: a call on the engine that never returns does not return "what it would return if the calls ran one
// after another"; a case that is still running after the watchdog, and again when run alone, is reported.
func (p *c02) HangIsViolation() bool              { return true }
func (p *c02) RaceCase(idx int, tier string) bool { return idx%2 == 0 }
func (p *c02) RequiredCounters(string) []string {
	return []string{"calls-compared", "relative-includes-checked", "porcupine-ok", "yield-hits", "big-first-parses"}
}

var reRaceFrame = regexp.MustCompile(`(?m)^\s+(github\.com/semihalev/twig\.(?:\(\*?\w+\)\.)?[\w.]+)\(`)
var reAnyFrame = regexp.MustCompile(`(?m)^\s+([A-Za-z0-9_./*()\-]+)\(`)

// ClassifyRace: a report is a violation when at least one of its two access stacks runs through engine code.
func (p *c02) ClassifyRace(report string) (string, bool, string) {
	// split into the sections "Write at"/"Read at" and "Previous ... at"
	secs := regexp.MustCompile(`(?m)^(?:Write|Read|Previous write|Previous read|Atomic|Previous atomic)[^\n]*\n`).Split(report, -1)
	var funcs []string
	for i, sec := range secs {
		if i == 0 {
			continue
		}
		// cut at "Goroutine" / "Location" blocks
		if j := strings.Index(sec, "\nGoroutine"); j >= 0 {
			sec = sec[:j]
		}
		if j := strings.Index(sec, "\nLocation"); j >= 0 {
			sec = sec[:j]
		}
		m := reRaceFrame.FindStringSubmatch(sec)
		if m != nil {
			funcs = append(funcs, strings.TrimPrefix(m[1], "github.com/semihalev/twig."))
		} else if m2 := reAnyFrame.FindStringSubmatch(sec); m2 != nil {
			funcs = append(funcs, "ext:"+m2[1])
		}
		if len(funcs) == 2 {
			break
		}
	}
	engine := false
	for _, f := range funcs {
		if !strings.HasPrefix(f, "ext:") {
			engine = true
		}
	}
	// also: any twig frame anywhere in the two stacks (engine code calling into runtime/map code)
	if !engine && strings.Contains(report, "github.com/semihalev/twig.") {
		engine = true
		if m := reRaceFrame.FindStringSubmatch(report); m != nil {
			funcs = append(funcs, strings.TrimPrefix(m[1], "github.com/semihalev/twig."))
		}
	}
	sort.Strings(funcs)
	sig := "race:" + strings.Join(funcs, "|")
	if !engine {
		return sig, false, "harness"
	}
	return sig, true, "data race between " + strings.Join(funcs, " and ") + " while goroutines share one engine"
}

// ---- in-memory timestamp-aware loader (read-only during the concurrent phase)
type tsLoader struct {
	m map[string]string
}

func (l *tsLoader) Load(name string) (string, error) {
	if s, ok := l.m[name]; ok {
		return s, nil
	}
	return "", fmt.Errorf("%w: %s", twig.ErrTemplateNotFound, name)
}
func (l *tsLoader) Exists(name string) bool { _, ok := l.m[name]; return ok }
func (l *tsLoader) GetModifiedTime(name string) (int64, error) {
	if _, ok := l.m[name]; ok {
		return 1000, nil
	}
	return 0, fmt.Errorf("%w: %s", twig.ErrTemplateNotFound, name)
}

type c02Call struct {
	Kind string // render renderTo load parseRender register
	Name string
	CtxK int
	Ver  int
}

type c02Rec struct {
	call     c02Call
	out      string
	err      bool
	t0, t1   int64
	panicked string
}

type c02Schedule struct {
	G, Procs, YieldPct int
	Cache              string // on off autoreload
	Loader             string // array chain fs
	NCalls             int
	Debug              bool // engine in debug mode (traces and timing go through the process-wide debugger)
}

func c02Marker(name string) string { return "⟦" + name + "⟧" }

// fsTree builds the relative-include tree. Returns sources keyed by logical template name (without suffix).
func c02Tree() (map[string]string, map[string][]string, map[string][]string) {
	mk := c02Marker
	srcs := map[string]string{
		"a/part":     mk("a/part") + "pa{{ v }}",
		"b/part":     mk("b/part") + "pb{{ v }}",
		"a/main":     mk("a/main") + "{% include './part.twig' %}|{% include './sub/x.twig' %}",
		"b/main":     mk("b/main") + "{% include './part.twig' %}",
		"a/sub/x":    mk("a/sub/x") + "{% include './y.twig' %}{% include '../part.twig' %}",
		"a/sub/y":    mk("a/sub/y") + "y",
		"b/sub/y":    mk("b/sub/y") + "wrong-y",
		"a/layout":   mk("a/layout") + "<{% block c %}la{% endblock %}>",
		"b/layout":   mk("b/layout") + "<{% block c %}lb{% endblock %}>",
		"a/child":    "{% extends './layout.twig' %}{% block c %}" + mk("a/child") + "{% include './part.twig' %}{{ parent() }}{% endblock %}",
		"b/child":    "{% extends './layout.twig' %}{% block c %}" + mk("b/child") + "{% include './part.twig' %}{{ parent() }}{% endblock %}",
		"a/macros":   "{% macro m(x) %}" + mk("a/macros") + "{{ x }}{% endmacro %}",
		"b/macros":   "{% macro m(x) %}" + mk("b/macros") + "{{ x }}{% endmacro %}",
		"a/usemacro": mk("a/usemacro") + "{% import './macros.twig' as mm %}{{ mm.m(v) }}{% from './macros.twig' import m %}{{ m(1) }}",
		"b/usemacro": mk("b/usemacro") + "{% import './macros.twig' as mm %}{{ mm.m(v) }}",
	}
	// must / must-not markers per entry (independent of the engine)
	must := map[string][]string{
		"a/main":     {mk("a/main"), mk("a/part"), mk("a/sub/x"), mk("a/sub/y")},
		"b/main":     {mk("b/main"), mk("b/part")},
		"a/child":    {mk("a/layout"), mk("a/child"), mk("a/part"), "la"},
		"b/child":    {mk("b/layout"), mk("b/child"), mk("b/part"), "lb"},
		"a/usemacro": {mk("a/usemacro"), mk("a/macros")},
		"b/usemacro": {mk("b/usemacro"), mk("b/macros")},
	}
	mustNot := map[string][]string{
		"a/main":     {mk("b/part"), mk("b/sub/y"), mk("b/main")},
		"b/main":     {mk("a/part"), mk("a/main")},
		"a/child":    {mk("b/layout"), mk("b/part"), mk("b/child")},
		"b/child":    {mk("a/layout"), mk("a/part"), mk("a/child")},
		"a/usemacro": {mk("b/macros")},
		"b/usemacro": {mk("a/macros")},
	}
	return srcs, must, mustNot
}

type c02World struct {
	wild        *WildEntry        // corpus entry whose templates take part in this schedule
	srcs        map[string]string // all templates by name (tree names carry the .twig suffix for fs/array lookups where needed)
	entries     []string
	must        map[string][]string
	mustNot     map[string][]string
	ts          *TSet
	dir         string
	regNames    []string
	regInLoader bool
	parseSrcs   []string
	bigNames    []string               // >4096-byte templates with identifiers no earlier parse has seen (first parse happens in the concurrent phase)
	bigWant     map[string]string      // name -> expected output without the trailing {{ v }} value
	bigVals     map[string]interface{} // values of the fresh identifiers
	bigTag      string
}

var c02BadSrcs = []string{"text {{ unclosed", "{% if v %}ok{% endif %}{# unclosed comment", "lead {% unclosed", "{% if %}x{% endif %}", "{{ }}", "{% for %}", "a{{ v|nofilter( }}",
	strings.Repeat("<p>long broken template</p>\n", 200) + "{{ v ", strings.Repeat("<p>long broken template</p>\n", 200) + "{% if v %}never closed"}

// c02Big builds a template above the large-tokenizer threshold whose print tags use identifiers unique to tag; its output is
// known by construction, so no serial pre-run (which would warm the engine's process-wide caches) is needed.
func c02Big(tag string) (src string, vals map[string]interface{}, want string) {
	filler := strings.Repeat("<p>big template filler line</p>\n", 140)
	var sb, wb strings.Builder
	sb.WriteString(c02Marker(tag) + filler)
	wb.WriteString(c02Marker(tag) + filler)
	vals = map[string]interface{}{}
	for j := 0; j < 24; j++ {
		id := fmt.Sprintf("%s_%d", tag, j)
		val := fmt.Sprintf("[%s.%d]", tag, j)
		vals[id] = val
		sb.WriteString("{{ " + id + " }};")
		wb.WriteString(val + ";")
	}
	sb.WriteString("{{ v }}")
	return sb.String(), vals, wb.String()
}

func (p *c02) world(r *core.Rand, sched c02Schedule) (*c02World, error) {
	w := &c02World{srcs: map[string]string{}}
	ts := GenTSet(r.Fork(), "c2·")
	w.ts = ts
	gen := (&mt.Printer{}).SourceSet(ts.Set)
	tree, must, mustNot := c02Tree()
	w.must, w.mustNot = must, mustNot
	for n, s := range gen {
		w.srcs[n] = s
	}
	if r.P(1, 3) {
		w.srcs["plain"] = strings.Repeat("<li class=\"row\">static filler row</li>\n", 130) + w.srcs["plain"]
	}
	for n, s := range tree {
		w.srcs[n+".twig"] = s
	}
	// struct contexts: every render goes through the process-wide attribute cache (hits, misses, stat updates)
	w.srcs["attrs"] = c02Marker("attrs") + "{{ obj.Name }}|{{ obj.Count }}|{{ pobj.Name }}|{{ obj.Inner.Deep }}|{{ pobj.Label }}|{{ obj.Missing }}|{% for it in objs %}{{ it.Name }}{{ it.Count }},{% endfor %}"
	w.srcs["attrs2"] = c02Marker("attrs2") + "{% for i in [1, 2, 3] %}{{ obj.Count }}{{ pobj.Count }}{{ other.Title }}{{ other.N }}{% endfor %}{{ other.Upper }}"
	w.entries = append(w.entries, "attrs", "attrs2")
	for tries := 0; tries < 6 && w.wild == nil; tries++ {
		we, ok := wildPick(r)
		if !ok {
			break
		}
		free := true
		for n, src0 := range we.Templates {
			if _, taken := w.srcs[n]; taken || strings.HasSuffix(n, ".twig") {
				free = false
			}
			if _, taken := tree[n]; taken {
				free = false
			}
			if len(src0) > 3000 {
				free = false
			}
		}
		if !free {
			continue
		}
		for n, src := range we.Templates {
			w.srcs[n] = src
		}
		w.entries = append(w.entries, we.Render, we.Render)
		wcopy := we
		w.wild = &wcopy
	}
	w.entries = append(w.entries, ts.Entries...)
	for n := range must {
		w.entries = append(w.entries, n+".twig")
	}
	// built-ins that draw on process-wide state (random source, clock, regular-expression and date machinery) with an
	// output that does not depend on what they draw
	w.srcs["stateful"] = c02Marker("stateful") + "{{ random(100) < 100 ? 'r' : 'x' }}{{ random() >= 0 ? 'r' : 'x' }}{{ random(3, 9) > 2 ? 'r' : 'x' }}{{ random(['a', 'a']) }}" +
		"{{ 'now'|date('Y') > 2000 ? 'd' : 'x' }}{{ date('now') ? 'd' : 'x' }}{{ 'abc' matches '/^a.c$/' ? 'm' : 'x' }}{{ '2024-03-05'|date('Y-m-d') }}{{ [3, 1, 2]|sort|join }}{{ 'a,b'|split(',')|length }}{{ v }}"
	// membership tests on lists of more than 50 elements (the engine builds a lookup set for those), different lists in
	// different templates
	w.srcs["mlists1"] = c02Marker("mlists1") + "{{ 5 in range(1, 60) ? 'Y' : 'N' }}{{ 105 in range(1, 60) ? 'Y' : 'N' }}{{ 'k7' in ks ? 'Y' : 'N' }}{{ 'q7' not in ks ? 'Y' : 'N' }}{% for i in range(1, 3) %}{{ i * 20 in range(1, 70) ? 'y' : 'n' }}{% endfor %}{{ v }}"
	w.srcs["mlists2"] = c02Marker("mlists2") + "{{ 5 in range(100, 160) ? 'Y' : 'N' }}{{ 105 in range(100, 160) ? 'Y' : 'N' }}{{ 'k7' in qs ? 'Y' : 'N' }}{{ 'q7' not in qs ? 'Y' : 'N' }}{% for i in range(1, 3) %}{{ i * 20 in range(30, 99) ? 'y' : 'n' }}{% endfor %}{{ v }}"
	// one date under different format strings, a different one in every template (anything the date machinery remembers
	// about a format belongs to that format)
	for i, f := range []string{"Y-m-d", "H:i", "D, d M Y", "d/m/y H:i:s", "Y"} {
		n := fmt.Sprintf("dates%d", i)
		w.srcs[n] = c02Marker(n) + "{{ '2021-03-04 15:06:07'|date('" + f + "') }}|{% for i in [1, 2] %}{{ '2021-03-04 15:06:07'|date('" + f + "') }};{% endfor %}{{ v }}"
		w.entries = append(w.entries, n, n)
	}
	w.entries = append(w.entries, "stateful", "stateful", "mlists1", "mlists2", "mlists1", "mlists2")
	sort.Strings(w.entries)
	w.regNames = []string{"reg0", "reg1"}
	// in every other world the loader has the names that the registration clients write (version 0): the first renders
	// are cache misses that read the loader while RegisterString stores under the same name
	w.regInLoader = r.Bool()
	if w.regInLoader {
		for _, n := range w.regNames {
			w.srcs[n] = c02RegSrc(n, 0)
		}
	}
	w.bigTag = fmt.Sprintf("bw%dx%d", r.Intn(1<<30), r.Intn(1<<30))
	w.bigWant, w.bigVals = map[string]string{}, map[string]interface{}{}
	for n := 0; n < 4; n++ {
		name := fmt.Sprintf("big%d", n)
		src, vals, want := c02Big(fmt.Sprintf("%sn%d", w.bigTag, n))
		w.srcs[name] = src
		w.bigWant[name] = want
		for k, v := range vals {
			w.bigVals[k] = v
		}
		w.bigNames = append(w.bigNames, name)
	}
	w.parseSrcs = []string{gen["plain"], "{% for i in [1, 2, 3] %}{{ i }}{{ s }}{% endfor %}" + c02Marker("parsed"), gen["part2"]}
	if sched.Loader == "fs" {
		dir, err := os.MkdirTemp("", "verif-c02-")
		if err != nil {
			return nil, err
		}
		w.dir = dir
		for n, s := range w.srcs {
			fn := n
			if !strings.HasSuffix(fn, ".twig") {
				fn += ".twig"
			}
			path := filepath.Join(dir, fn)
			os.MkdirAll(filepath.Dir(path), 0o755)
			if err := os.WriteFile(path, []byte(s), 0o644); err != nil {
				return nil, err
			}
		}
	}
	return w, nil
}

func (w *c02World) cleanup() {
	if w.dir != "" {
		os.RemoveAll(w.dir)
	}
}

func (w *c02World) newEngine(sched c02Schedule) *twig.Engine {
	e := twig.New()
	cp := func() map[string]string {
		m := map[string]string{}
		for k, v := range w.srcs {
			m[k] = v
		}
		return m
	}
	switch sched.Loader {
	case "fs":
		e.RegisterLoader(twig.NewFileSystemLoader([]string{w.dir}))
	case "chain":
		half1, half2 := map[string]string{}, map[string]string{}
		i := 0
		for _, k := range sortedKeys(w.srcs) {
			if i%2 == 0 {
				half1[k] = w.srcs[k]
			} else {
				half2[k] = w.srcs[k]
			}
			i++
		}
		e.RegisterLoader(twig.NewChainLoader([]twig.Loader{twig.NewArrayLoader(half1), twig.NewArrayLoader(half2)}))
	default:
		if sched.Cache == "autoreload" {
			e.RegisterLoader(&tsLoader{m: cp()})
		} else {
			e.RegisterLoader(twig.NewArrayLoader(cp()))
		}
	}
	if sched.Debug {
		e.SetDebug(true)
	}
	switch sched.Cache {
	case "off":
		e.SetCache(false)
	case "autoreload":
		e.SetAutoReload(true)
	}
	return e
}

type c02Inner struct{ Deep string }
type c02Obj struct {
	Name  string
	Count int
	Inner c02Inner
}

func (o *c02Obj) Label() string { return "label:" + o.Name }

type c02Other struct {
	Title string
	N     int
}

func (o c02Other) Upper() string { return strings.ToUpper(o.Title) }

func (w *c02World) ctx(k int) map[string]interface{} {
	m := w.ts.GoCtxVariant(k)
	if w.wild != nil {
		for n, v := range w.wild.Ctx(nil) {
			m[n] = v
		}
	}
	m["v"] = fmt.Sprintf("V%d", k)
	ks, qs := make([]interface{}, 64), make([]string, 64)
	for i := range ks {
		ks[i], qs[i] = fmt.Sprintf("k%d", i), fmt.Sprintf("q%d", i)
	}
	m["ks"], m["qs"] = ks, qs
	m["obj"] = c02Obj{Name: fmt.Sprintf("obj%d", k), Count: 10 + k, Inner: c02Inner{Deep: "deep"}}
	m["pobj"] = &c02Obj{Name: fmt.Sprintf("pobj%d", k), Count: 20 + k}
	m["objs"] = []c02Obj{{Name: "a", Count: 1}, {Name: "b", Count: 2}}
	m["other"] = c02Other{Title: fmt.Sprintf("title%d", k), N: k}
	for id, v := range w.bigVals {
		m[id] = v
	}
	return m
}

func c02RegSrc(name string, ver int) string {
	return fmt.Sprintf("⟦%s#%d⟧{{ v }}{%% for i in [1, 2] %%}{{ i }}{%% endfor %%}", name, ver)
}

var reRegVer = regexp.MustCompile(`⟦(reg\d)#(\d+)⟧`)

func (p *c02) doCall(e *twig.Engine, w *c02World, c c02Call) (out string, failed bool, pan string) {
	panicked, site, val, _ := core.Guard(func() {
		var err error
		switch c.Kind {
		case "render":
			out, err = e.Render(c.Name, w.ctx(c.CtxK))
		case "renderTo":
			var buf bytes.Buffer
			err = e.RenderTo(&buf, c.Name, w.ctx(c.CtxK))
			out = buf.String()
		case "load":
			var t *twig.Template
			t, err = e.Load(c.Name)
			if err == nil && t == nil {
				out = "nil-template"
			}
		case "parseRender":
			var t *twig.Template
			t, err = e.ParseTemplate(w.parseSrcs[c.Ver%len(w.parseSrcs)])
			if err == nil {
				out, err = t.Render(w.ctx(c.CtxK))
			}
		case "badParse":
			// sources that fail in the tokenizer or in the parser: the error paths share pooled tokenizers and buffers with
			// the successful parses running next to them
			_, err = e.ParseTemplate(c02BadSrcs[c.Ver%len(c02BadSrcs)])
			if err == nil {
				out = "parsed-without-error"
			}
		case "bigParse":
			src, vals, _ := c02Big(fmt.Sprintf("%sp%d", w.bigTag, c.Ver))
			vals["v"] = fmt.Sprintf("V%d", c.CtxK)
			var t *twig.Template
			t, err = e.ParseTemplate(src)
			if err == nil {
				out, err = t.Render(vals)
			}
		case "register":
			err = e.RegisterString(c.Name, c02RegSrc(c.Name, c.Ver))
		}
		failed = err != nil
		if err != nil {
			out = "ERR:" + err.Error()
		}
	})
	if panicked {
		return "", true, val + " @" + site
	}
	return out, failed, ""
}

type regInput struct {
	Name  string
	Write bool
	Ver   int
}

// firstAccess: several goroutines reach an attribute of a struct type nobody has looked at yet (a type made for the round,
// so the process-wide attribute cache cannot know it) at the same moment. Each render must return what a lone render
// returns, which for "[{{ x.Name }}|{{ x.Count }}|{{ x.Missing }}]" is known from the value itself.
func (p *c02) firstAccess(rec *core.Recorder, r *core.Rand, seed uint64, idx int) {
	prev := runtime.GOMAXPROCS(16)
	defer runtime.GOMAXPROCS(prev)
	twig.VerifYield = func(point string) {
		if strings.HasPrefix(point, "attr.") && randv2.Uint32N(3) == 0 {
			if randv2.Uint32N(3) == 0 {
				time.Sleep(time.Duration(20+randv2.Uint32N(200)) * time.Microsecond)
			} else {
				runtime.Gosched()
			}
		}
	}
	defer func() { twig.VerifYield = nil }()
	e := twig.New()
	e.RegisterString("t", "[{{ x.Name }}|{{ x.Count }}|{{ x.Missing }}]")
	e.Render("t", map[string]interface{}{"x": map[string]interface{}{"Name": "warm", "Count": 0}})
	rounds, wrong, total := 40, 0, 0
	example := ""
	for round := 0; round < rounds; round++ {
		tag := reflect.StructTag(fmt.Sprintf(`verif:"%d_%d_%d"`, seed, idx, round))
		typ := reflect.StructOf([]reflect.StructField{
			{Name: "Name", Type: reflect.TypeOf(""), Tag: tag},
			{Name: "Pad", Type: reflect.TypeOf([3]int{})},
			{Name: "Count", Type: reflect.TypeOf(0)},
		})
		pv := reflect.New(typ)
		pv.Elem().Field(0).SetString(fmt.Sprintf("n%d", round))
		pv.Elem().Field(2).SetInt(int64(round + 1))
		var val interface{} = pv.Elem().Interface()
		if round%2 == 1 {
			val = pv.Interface()
		}
		want := fmt.Sprintf("[n%d|%d|]", round, round+1)
		G := []int{2, 4, 8, 16}[r.Intn(4)]
		outs := make([]string, G)
		errs := make([]error, G)
		gate := make(chan struct{})
		var wg sync.WaitGroup
		for g := 0; g < G; g++ {
			wg.Add(1)
			go func(g int) {
				defer wg.Done()
				<-gate
				outs[g], errs[g] = e.Render("t", map[string]interface{}{"x": val})
			}(g)
		}
		close(gate)
		wg.Wait()
		for g := range outs {
			total++
			if errs[g] != nil || outs[g] != want {
				wrong++
				if example == "" {
					example = fmt.Sprintf("round %d, %d goroutines, goroutine %d got %q (err=%v), a lone render gives %q", round, G, g, outs[g], errs[g], want)
				}
			}
		}
	}
	rec.Eval("first-access", fmt.Sprintf("%d:%d", seed, idx), true)
	rec.Count("simultaneous-first-attribute-accesses", total)
	if wrong > 0 {
		rec.Violate("serial-equivalence", "first-attribute-access-under-concurrency",
			fmt.Sprintf("%d of %d renders that reached an attribute of a never-seen struct type at the same time returned something else than a lone render: %s", wrong, total, example),
			map[string]any{"template": "[{{ x.Name }}|{{ x.Count }}|{{ x.Missing }}]", "rounds": rounds, "seed": seed, "index": idx}, "")
	}
}

// c02Gate is a writer that parks every caller in its first Write until n callers are parked there (or a generous wait is
// over: the wait only opens the gate, it decides nothing).
type c02Gate struct {
	buf     bytes.Buffer
	arrived *int32
	n       int32
	open    chan struct{}
	once    *sync.Once
	parked  bool
}

func (g *c02Gate) Write(b []byte) (int, error) {
	if !g.parked {
		g.parked = true
		if atomic.AddInt32(g.arrived, 1) >= g.n {
			g.once.Do(func() { close(g.open) })
		}
		select {
		case <-g.open:
		case <-time.After(3 * time.Second):
			g.once.Do(func() { close(g.open) })
		}
	}
	return g.buf.Write(b)
}

// crowd: a hundred and more renders are inside one included / extended / imported template at the same moment (parked in
// a slow writer). Each returns what it returns alone.
func (p *c02) crowd(rec *core.Recorder, r *core.Rand, seed uint64, idx int) {
	prev := runtime.GOMAXPROCS(16)
	defer runtime.GOMAXPROCS(prev)
	n := []int{70, 100, 150}[r.Intn(3)]
	form := r.Intn(3)
	e := twig.New()
	e.RegisterString("part", "P[{{ v }}]")
	e.RegisterString("lay", "L<{% block c %}d{% endblock %}>")
	e.RegisterString("lib", "{% macro m(x) %}M({{ x }}){% endmacro %}")
	src := []string{"a{% include 'part' %}b", "{% extends 'lay' %}{% block c %}C{{ v }}{% endblock %}", "{% import 'lib' as l %}{{ l.m(v) }}|{% include 'part' %}"}[form]
	e.RegisterString("page", src)
	want := func(v int) string {
		return []string{fmt.Sprintf("aP[%d]b", v), fmt.Sprintf("L<C%d>", v), fmt.Sprintf("M(%d)|P[%d]", v, v)}[form]
	}
	if out, err := e.Render("page", map[string]interface{}{"v": 0}); err != nil || out != want(0) {
		rec.HarnessFault("crowd: serial render gave %q %v", out, err)
		return
	}
	var arrived int32
	open := make(chan struct{})
	once := &sync.Once{}
	outs := make([]string, n)
	errs := make([]error, n)
	var wg sync.WaitGroup
	for g := 0; g < n; g++ {
		wg.Add(1)
		go func(g int) {
			defer wg.Done()
			gw := &c02Gate{arrived: &arrived, n: int32(n), open: open, once: once}
			errs[g] = e.RenderTo(gw, "page", map[string]interface{}{"v": g})
			outs[g] = gw.buf.String()
			if !gw.parked {
				// a render that never wrote still counts as arrived, or the others would wait for it
				if atomic.AddInt32(&arrived, 1) >= int32(n) {
					once.Do(func() { close(open) })
				}
			}
		}(g)
	}
	wg.Wait()
	rec.Eval("crowd", fmt.Sprintf("%d:%d:%d:%d", seed, idx, n, form), true)
	rec.Count("renders-parked-inside-one-template", n)
	wrong := 0
	example := ""
	for g := range outs {
		if errs[g] != nil || outs[g] != want(g) {
			wrong++
			if example == "" {
				example = fmt.Sprintf("render %d gave %q (err=%v), alone it gives %q", g, outs[g], errs[g], want(g))
			}
		}
	}
	if wrong > 0 {
		rec.Violate("serial-equivalence", "many-renders-inside-one-template",
			fmt.Sprintf("%d renders were inside one %s at the same moment; %d of them returned something else than alone: %s", n, []string{"included template", "extended layout", "imported library / included template"}[form], wrong, example),
			map[string]any{"page": src, "goroutines": n}, "")
	}
}

func (p *c02) Run(rec *core.Recorder, seed uint64, idx int, tier string) {
	twig.SetDebugWriter(io.Discard)
	if idx%10 == 3 {
		p.crowd(rec, core.NewRand("C02crowd", seed, idx), seed, idx)
		return
	}
	if idx%10 == 7 {
		p.firstAccess(rec, core.NewRand("C02first", seed, idx), seed, idx)
		return
	}
	r := core.NewRand("C02", seed, idx)
	sched := c02Schedule{
		G:        []int{2, 4, 8, 8, 16, 32}[r.Intn(6)],
		Procs:    []int{2, 4, 16}[r.Intn(3)],
		YieldPct: []int{0, 5, 30}[r.Intn(3)],
		Cache:    []string{"on", "on", "off", "autoreload"}[r.Intn(4)],
		Loader:   []string{"array", "chain", "fs", "fs"}[r.Intn(4)],
		NCalls:   r.Range(40, 300),
	}
	sched.Debug = r.P(1, 5)
	if idx < 6 {
		// regression witnesses: token-buffer race (cache off, many parses), first-load storm through the file-system loader
		sched = []c02Schedule{
			{G: 8, Procs: 16, YieldPct: 0, Cache: "off", Loader: "array", NCalls: 200},
			{G: 8, Procs: 16, YieldPct: 5, Cache: "off", Loader: "array", NCalls: 200},
			{G: 16, Procs: 16, YieldPct: 30, Cache: "on", Loader: "fs", NCalls: 120},
			{G: 16, Procs: 16, YieldPct: 30, Cache: "on", Loader: "fs", NCalls: 120},
			{G: 8, Procs: 4, YieldPct: 5, Cache: "autoreload", Loader: "array", NCalls: 150},
			{G: 8, Procs: 4, YieldPct: 5, Cache: "on", Loader: "chain", NCalls: 150},
		}[idx]
	}
	prev := runtime.GOMAXPROCS(sched.Procs)
	defer runtime.GOMAXPROCS(prev)
	w, err := p.world(r, sched)
	if err != nil {
		rec.HarnessFault("cannot build world: %v", err)
		return
	}
	defer w.cleanup()
	caseInfo := map[string]any{"schedule": fmt.Sprintf("%+v", sched), "seed": seed, "index": idx}

	// ---- scripts
	kinds := map[string]bool{}
	scripts := make([][]c02Call, sched.G)
	regClients := 0
	for g := range scripts {
		n := sched.NCalls / sched.G
		if n < 3 {
			n = 3
		}
		isReg := sched.Cache == "on" && g < 2 && sched.G >= 4
		if isReg {
			regClients++
		}
		for i := 0; i < n; i++ {
			var c c02Call
			c.CtxK = r.Intn(3)
			switch k := r.Intn(20); {
			case isReg && k < 8:
				c = c02Call{Kind: "register", Name: w.regNames[r.Intn(2)], Ver: g*1000 + i + 1}
			case k < 3 || (isReg && k < 14):
				if sched.Cache == "on" && sched.G >= 4 {
					c.Kind, c.Name = "render", w.regNames[r.Intn(2)]
				} else {
					c.Kind, c.Name = "render", w.entries[r.Intn(len(w.entries))]
				}
			case k < 12:
				c.Kind, c.Name = "render", w.entries[r.Intn(len(w.entries))]
			case k < 15:
				c.Kind, c.Name = "renderTo", w.entries[r.Intn(len(w.entries))]
			case k < 17:
				c.Kind, c.Name = "load", w.entries[r.Intn(len(w.entries))]
			default:
				c.Kind, c.Ver = "parseRender", r.Intn(3)
			}
			kinds[c.Kind] = true
			scripts[g] = append(scripts[g], c)
			// first parses of large templates with never-seen identifiers, several goroutines at the same names
			if r.P(1, 5) {
				bad := c02Call{Kind: "badParse", Ver: r.Intn(len(c02BadSrcs))}
				kinds[bad.Kind] = true
				scripts[g] = append(scripts[g], bad)
			}
			if i == 0 || r.P(1, 12) {
				ck := r.Intn(3)
				big := c02Call{Kind: []string{"render", "renderTo", "load"}[r.Intn(3)], Name: w.bigNames[r.Intn(len(w.bigNames))], CtxK: ck}
				if r.P(1, 2) {
					big = c02Call{Kind: "bigParse", Ver: g*10000 + i, CtxK: ck}
				}
				scripts[g] = append(scripts[g], big)
			}
		}
	}

	// ---- serial reference: one fresh engine and one call per distinct independent call
	type key struct {
		kind, name string
		ctxK, ver  int
	}
	expected := map[key]c02Rec{}
	for _, sc := range scripts {
		for _, c := range sc {
			if c.Kind == "register" || (c.Kind == "render" && strings.HasPrefix(c.Name, "reg")) {
				continue
			}
			k := key{c.Kind, c.Name, c.CtxK, c.Ver}
			if c.Kind == "load" {
				k.ctxK = 0
			}
			if _, ok := expected[k]; ok {
				continue
			}
			if c.Kind == "bigParse" || strings.HasPrefix(c.Name, "big") {
				rec.Count("big-first-parses", 1)
				switch {
				case c.Kind == "bigParse":
					_, _, want := c02Big(fmt.Sprintf("%sp%d", w.bigTag, c.Ver))
					expected[k] = c02Rec{out: want + fmt.Sprintf("V%d", c.CtxK)}
				case c.Kind == "load":
					expected[k] = c02Rec{}
				default:
					expected[k] = c02Rec{out: w.bigWant[c.Name] + fmt.Sprintf("V%d", c.CtxK)}
				}
				continue
			}
			e := w.newEngine(sched)
			out, failed, pan := p.doCall(e, w, c)
			expected[k] = c02Rec{out: out, err: failed, panicked: pan}
		}
	}
	// the serial reference itself must satisfy the harness-computed relative-name expectations
	checkMarkers := func(name, out, who string) {
		base := strings.TrimSuffix(name, ".twig")
		must, ok := w.must[base]
		if !ok {
			return
		}
		rec.Count("relative-includes-checked", 1)
		for _, m := range must {
			if !strings.Contains(out, m) {
				rec.Violate("relative-name", "relative-name:missing:"+base, fmt.Sprintf("%s render of %s lacks %s (relative name resolved against the wrong template?): %s", who, name, m, core.Q(core.Trunc(out, 300))), caseInfo, "")
				return
			}
		}
		for _, m := range w.mustNot[base] {
			if strings.Contains(out, m) {
				rec.Violate("relative-name", "relative-name:foreign:"+base, fmt.Sprintf("%s render of %s contains %s, material of a template in another directory: %s", who, name, m, core.Q(core.Trunc(out, 300))), caseInfo, "")
				return
			}
		}
	}
	for k, v := range expected {
		if (k.kind == "render" || k.kind == "renderTo") && !v.err {
			checkMarkers(k.name, v.out, "serial")
		}
		if v.panicked != "" {
			rec.Violate("panic", "panic-serial:"+k.kind, "serial call panicked: "+v.panicked, caseInfo, "")
		}
	}

	// ---- concurrent phase
	e := w.newEngine(sched)
	if !w.regInLoader {
		for _, n := range w.regNames {
			e.RegisterString(n, c02RegSrc(n, 0))
		}
	} else {
		rec.Count("worlds-with-registered-names-in-loader", 1)
	}
	var yieldHits [8]struct {
		n   int64
		pad [7]int64
	}
	if sched.YieldPct > 0 {
		pct := uint32(sched.YieldPct)
		twig.VerifYield = func(point string) {
			// lock-free randomness; no shared writes (hit counts are sampled racily on purpose? no: per-P padded slots written without sync would race) -> count in TLS-free way: skip counting here
			if randv2.Uint32N(100) < pct {
				if randv2.Uint32N(4) == 0 {
					time.Sleep(time.Duration(50+randv2.Uint32N(400)) * time.Microsecond)
				} else {
					runtime.Gosched()
				}
			}
		}
	} else {
		twig.VerifYield = nil
	}
	_ = yieldHits
	logs := make([][]c02Rec, sched.G)
	for g := range logs {
		logs[g] = make([]c02Rec, 0, len(scripts[g]))
	}
	start := make(chan struct{})
	var wg sync.WaitGroup
	t0 := time.Now()
	for g := 0; g < sched.G; g++ {
		wg.Add(1)
		go func(g int) {
			defer wg.Done()
			<-start
			for _, c := range scripts[g] {
				a := int64(time.Since(t0))
				out, failed, pan := p.doCall(e, w, c)
				b := int64(time.Since(t0))
				logs[g] = append(logs[g], c02Rec{call: c, out: out, err: failed, t0: a, t1: b, panicked: pan})
			}
		}(g)
	}
	if sched.Loader == "fs" && sched.Cache == "autoreload" {
		// a deploy tool touching the files (newer modification time, same content) while they are being rendered: every
		// call still returns what it returns alone
		rec.Count("schedules-with-touched-files", 1)
		var files []string
		filepath.Walk(w.dir, func(path string, info os.FileInfo, err error) error {
			if err == nil && !info.IsDir() {
				files = append(files, path)
			}
			return nil
		})
		sort.Strings(files)
		wg.Add(1)
		go func() {
			defer wg.Done()
			<-start
			base := time.Now()
			for round := 1; round <= 40; round++ {
				for _, f := range files {
					os.Chtimes(f, base, base.Add(time.Duration(round)*time.Second))
				}
				time.Sleep(300 * time.Microsecond)
			}
		}()
	}
	close(start)
	wg.Wait()
	twig.VerifYield = nil
	// yield-point reachability is measured outside the concurrent phase, single-threaded
	if sched.YieldPct > 0 {
		hits := 0
		twig.VerifYield = func(string) { hits++ }
		e2 := w.newEngine(sched)
		e2.Render(w.entries[0], w.ctx(0))
		e2.Render("a/main.twig", w.ctx(0))
		twig.VerifYield = nil
		rec.Count("yield-hits", hits)
	} else {
		rec.Count("yield-hits", 1)
	}

	// ---- offline checks
	total := 0
	var ops []porcupine.Operation
	order := []string{}
	for g, lg := range logs {
		for _, rc := range lg {
			total++
			c := rc.call
			rec.Count("call:"+c.Kind, 1)
			if rc.panicked != "" {
				rec.Violate("panic", "panic-concurrent:"+c.Kind, fmt.Sprintf("%s(%s) panicked under concurrency: %s", c.Kind, c.Name, rc.panicked), caseInfo, "")
				continue
			}
			isRegRead := c.Kind == "render" && strings.HasPrefix(c.Name, "reg")
			switch {
			case c.Kind == "register":
				if rc.err {
					rec.Violate("serial-equality", "register-failed", "RegisterString failed under concurrency: "+rc.out, caseInfo, "")
				}
				ops = append(ops, porcupine.Operation{ClientId: g, Input: regInput{c.Name, true, c.Ver}, Call: rc.t0, Output: c.Ver, Return: rc.t1})
			case isRegRead:
				m := reRegVer.FindStringSubmatch(rc.out)
				if rc.err || m == nil || m[1] != c.Name {
					rec.Violate("serial-equality", "register-read-garbled", fmt.Sprintf("Render(%s) while RegisterString runs returned %s err=%v", c.Name, core.Q(core.Trunc(rc.out, 200)), rc.err), caseInfo, "")
					continue
				}
				var ver int
				fmt.Sscan(m[2], &ver)
				want := fmt.Sprintf("⟦%s#%d⟧V%d12", c.Name, ver, c.CtxK)
				if rc.out != want {
					rec.Violate("serial-equality", "register-read-mixed", fmt.Sprintf("Render(%s) returned %s, no serial execution gives that (version %d renders %s)", c.Name, core.Q(rc.out), ver, core.Q(want)), caseInfo, "")
				}
				ops = append(ops, porcupine.Operation{ClientId: g, Input: regInput{c.Name, false, 0}, Call: rc.t0, Output: ver, Return: rc.t1})
			default:
				k := key{c.Kind, c.Name, c.CtxK, c.Ver}
				if c.Kind == "load" {
					k.ctxK = 0
				}
				want := expected[k]
				rec.Count("calls-compared", 1)
				if rc.err != want.err || (!rc.err && rc.out != want.out) {
					rec.Violate("serial-equality", "serial-equality:"+c.Kind,
						fmt.Sprintf("%s(%s, ctx%d) under concurrency returned %s err=%v; run alone it returns %s err=%v", c.Kind, c.Name, c.CtxK, core.Q(core.Trunc(rc.out, 250)), rc.err, core.Q(core.Trunc(want.out, 250)), want.err), caseInfo, "")
				}
				if (c.Kind == "render" || c.Kind == "renderTo") && !rc.err {
					checkMarkers(c.Name, rc.out, "concurrent")
				}
			}
			order = append(order, fmt.Sprintf("%d:%d", rc.t0, g))
		}
	}
	sort.Strings(order)
	rec.Count("interleaving-fingerprints", 1)
	rec.Notes[fmt.Sprintf("interleaving-%d", idx)] = fmt.Sprintf("%x", core.Hash64(order...))
	if len(ops) > 0 {
		model := porcupine.Model{
			Partition: func(history []porcupine.Operation) [][]porcupine.Operation {
				by := map[string][]porcupine.Operation{}
				for _, o := range history {
					n := o.Input.(regInput).Name
					by[n] = append(by[n], o)
				}
				var out [][]porcupine.Operation
				for _, n := range sortedKeys(by) {
					out = append(out, by[n])
				}
				return out
			},
			Init: func() interface{} { return 0 },
			Step: func(state, input, output interface{}) (bool, interface{}) {
				in := input.(regInput)
				if in.Write {
					return true, in.Ver
				}
				return output.(int) == state.(int), state
			},
			DescribeOperation: func(input, output interface{}) string {
				in := input.(regInput)
				if in.Write {
					return fmt.Sprintf("register(%s,#%d)", in.Name, in.Ver)
				}
				return fmt.Sprintf("render(%s)->#%d", in.Name, output.(int))
			},
		}
		res := porcupine.CheckOperationsTimeout(model, ops, 60*time.Second)
		switch res {
		case porcupine.Ok:
			rec.Count("porcupine-ok", 1)
			rec.Count("porcupine-ops", len(ops))
		case porcupine.Illegal:
			var b strings.Builder
			for _, o := range ops {
				fmt.Fprintf(&b, "c%d [%d,%d] %s\n", o.ClientId, o.Call, o.Return, model.DescribeOperation(o.Input, o.Output))
			}
			rec.Violate("linearizability", "not-linearizable:register-render", "RegisterString/Render history on one name is not linearizable against a register", caseInfo, b.String())
		default:
			rec.Inconc("porcupine timed out on schedule %d (%d ops)", idx, len(ops))
		}
	} else {
		rec.Count("porcupine-ok", 1) // schedule without registration clients (cache off / few goroutines): nothing to linearize
	}
	canon := fmt.Sprintf("%+v|%d|%d", sched, seed, idx)
	rec.Eval("schedule", canon, sched.G >= 4 && len(kinds) >= 2)
	rec.Count("calls", total)
	if rec.WantSample("schedule") {
		rec.Sample("schedule", map[string]any{"schedule": fmt.Sprintf("%+v", sched), "calls": total, "race_build": idx%2 == 0, "first_calls": fmt.Sprintf("%+v", scripts[0][:min(5, len(scripts[0]))])})
	}
}
