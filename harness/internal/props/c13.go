package props

import (
	"fmt"
	"strings"

	"verifharness/internal/core"
	"verifharness/internal/mt"
)

// C13 — whitespace-control dashes trim adjacent whitespace and change nothing else.
type c13 struct{ base }

func init() {
	Register(&c13{base{
		id: "C13", level: "exploration",
		technique: "metamorphic monitor: template with a subset of its delimiters dashed vs the same template with the dashes removed and the governed whitespace deleted by the generator; all 2^d subsets for d <= 10 delimiters, random subsets above",
		rule: "case = (template from a per-tag-kind corpus or a generated program, dash subset, whitespace padding of every text piece drawn from {space, tab, CR, LF}^0..4 around a non-blank core that in a sixth of the pieces starts or ends with a look-alike that is not one of the four (NBSP, VT, FF, NEL, U+2003, U+2028, U+3000, NUL, BOM, ZWSP, 0x1F, a lone 0xA0 byte)); in a quarter of the cases the single blank inside a tag's delimiters is a run of 1-3 of the four whitespace characters; both versions are rendered once on fresh engines; outputs must be equal and the dashed version must parse whenever the plain one does. After the dashed render a fixed probe template without dashes is parsed on a fresh engine and must render as written, and both versions are parsed and rendered a second time with the same result (a dash has no effect on the templates parsed after it). " +
			"Non-trivial: at least one dashed delimiter borders a text piece with whitespace on that side. Distinct = distinct dashed source.",
		assumptions: []string{
			"text between two tags is empty or contains a non-blank character (whether trimming continues through a tag is not stated)",
			"no dashes on comment delimiters; tags inside a verbatim body are not dashed",
		},
		quick: 60000, thorough: 1200000, minQuick: 20000, minThorough: 300000,
	}})
}

func (p *c13) RequiredCounters(string) []string {
	return []string{"class:corpus-exhaustive", "class:program-random", "long-sources", "after-dash-probes", "inner-blank-runs"}
}

// corpus: one entry per tag kind / boundary. Entry = template set + main + context.
type c13Entry struct {
	name string
	set  func() *mt.TmplSet
}

func c13Corpus() []c13Entry {
	t := mt.T
	one := func(body ...mt.Stmt) func() *mt.TmplSet {
		return func() *mt.TmplSet {
			s := mt.NewSet()
			s.Add("inc", []mt.Stmt{t("I"), mt.P(mt.V("w"))})
			s.Add("lib", []mt.Stmt{mt.Macro{Name: "mm", Params: []string{"x"}, Body: []mt.Stmt{t("<"), mt.P(mt.V("x")), t(">")}}})
			s.Add("base", []mt.Stmt{t("B["), mt.Block{Name: "c", Body: []mt.Stmt{t("c0")}}, t("]")})
			s.Add("main", body)
			return s
		}
	}
	yes, no := mt.V("yes"), mt.V("no")
	return []c13Entry{
		{"print", one(t("a"), mt.P(mt.V("s")), t("b"), mt.P(mt.Op("~", mt.V("s"), mt.S("!"))), t("c"))},
		{"print-literals", one(t("a"), mt.P(mt.I(1)), t("b"), mt.P(mt.Op("*", mt.I(2), mt.I(3))), t("c"), mt.P(mt.Op("~", mt.I(7), mt.V("s"))), t("d"), mt.P(mt.S("q")), t("e"), mt.P(mt.Paren{E: mt.I(4)}), t("f"))},
		// print tags whose expression ends in the closing brace of a hash literal (the brace and the delimiter meet when
		// the source is printed without blanks inside the delimiters; a right dash keeps them apart)
		{"print-hash", one(t("a"), mt.P(mt.Hash{Keys: []string{"k"}, Vals: []mt.Expr{mt.I(1)}}), t("b"), mt.P(mt.Hash{}), t("c"))},
		{"print-hash-nested", one(t("a"), mt.P(mt.Hash{Keys: []string{"o"}, Vals: []mt.Expr{mt.Hash{Keys: []string{"i"}, Vals: []mt.Expr{mt.V("s")}}}}), t("b"), mt.P(mt.Arr{Items: []mt.Expr{mt.Hash{Keys: []string{"q"}, Vals: []mt.Expr{mt.Hash{}}}}}), t("c"))},
		{"if", one(t("a"), mt.If{Conds: []mt.Expr{yes}, Bodies: [][]mt.Stmt{{t("T")}}}, t("b"))},
		{"if-else", one(t("a"), mt.If{Conds: []mt.Expr{no}, Bodies: [][]mt.Stmt{{t("T")}}, HasElse: true, Else: []mt.Stmt{t("E")}}, t("b"))},
		{"if-elseif-else", one(t("a"), mt.If{Conds: []mt.Expr{no, yes}, Bodies: [][]mt.Stmt{{t("T")}, {t("U")}}, HasElse: true, Else: []mt.Stmt{t("E")}}, t("b"))},
		{"for", one(t("a"), mt.For{Val: "i", Seq: mt.V("xs"), Body: []mt.Stmt{t("["), mt.P(mt.V("i")), t("]")}}, t("b"))},
		{"for-else", one(t("a"), mt.For{Val: "i", Seq: mt.V("none"), Body: []mt.Stmt{t("x")}, HasElse: true, Else: []mt.Stmt{t("E")}}, t("b"))},
		{"for-else-nonempty", one(t("a"), mt.For{Key: "k", Val: "i", Seq: mt.V("xs"), Body: []mt.Stmt{t("x")}, HasElse: true, Else: []mt.Stmt{t("E")}}, t("b"))},
		{"block", one(t("a"), mt.Block{Name: "c", Body: []mt.Stmt{t("body")}}, t("b"))},
		{"set", one(t("a"), mt.Set{Name: "q", E: mt.I(5)}, t("b"), mt.P(mt.V("q")), t("c"))},
		{"do", one(t("a"), mt.Do{E: mt.Op("+", mt.I(1), mt.I(2))}, t("b"))},
		{"include", one(t("a"), mt.Include{E: mt.S("inc"), HasWith: true, WithKeys: []string{"w"}, WithVals: []mt.Expr{mt.S("W")}}, t("b"))},
		{"include-plain", one(t("a"), mt.Include{E: mt.S("inc"), Only: true}, t("b"))},
		{"import", one(t("a"), mt.Import{E: mt.S("lib"), Alias: "l"}, t("b"), mt.P(mt.MCall{Prefix: "l", Name: "mm", Args: []mt.Expr{mt.S("v")}}), t("c"))},
		{"from", one(t("a"), mt.FromImport{E: mt.S("lib"), Names: []string{"mm"}}, t("b"), mt.P(mt.MCall{Name: "mm", Args: []mt.Expr{mt.S("v")}}), t("c"))},
		{"macro", one(t("a"), mt.Macro{Name: "m2", Params: []string{"x"}, Body: []mt.Stmt{t("("), mt.P(mt.V("x")), t(")")}}, t("b"), mt.P(mt.MCall{Name: "m2", Args: []mt.Expr{mt.I(1)}}), t("c"))},
		{"apply", one(t("a"), mt.Apply{Filter: "upper", Body: []mt.Stmt{t("shout")}}, t("b"))},
		{"spaceless", one(t("a"), mt.Spaceless{Body: []mt.Stmt{t("<i>x</i>")}}, t("b"))},
		// bodies that are nothing but tags once the dashes (or a hand) have removed the blanks around them
		{"spaceless-value", one(t("a"), mt.Spaceless{Body: []mt.Stmt{t(" "), mt.P(mt.V("markup")), t(" ")}}, t("b"), mt.Spaceless{Body: []mt.Stmt{t("\n"), mt.If{Conds: []mt.Expr{yes}, Bodies: [][]mt.Stmt{{t(" "), mt.P(mt.V("markup")), t(" ")}}}, t("\n")}}, t("c"))},
		{"apply-value", one(t("a"), mt.Apply{Filter: "upper", Body: []mt.Stmt{t(" "), mt.P(mt.V("markup")), t(" ")}}, t("b"))},
		{"verbatim", one(t("a"), mt.Verbatim{Raw: "raw body"}, t("b"))},
		{"extends", func() *mt.TmplSet {
			s := one()()
			s.Add("main", []mt.Stmt{mt.Extends{E: mt.S("base")}, mt.Block{Name: "c", Body: []mt.Stmt{t("over"), mt.P(mt.Parent{}), t("ride")}}})
			return s
		}},
		{"nested", one(t("a"), mt.For{Val: "i", Seq: mt.V("xs"), Body: []mt.Stmt{mt.If{Conds: []mt.Expr{mt.V("i")}, Bodies: [][]mt.Stmt{{t("y"), mt.P(mt.V("i"))}}, HasElse: true, Else: []mt.Stmt{t("z")}}}}, t("b"))},
		{"adjacent-tags", one(mt.P(mt.V("s")), mt.P(mt.V("s")), mt.If{Conds: []mt.Expr{yes}, Bodies: [][]mt.Stmt{{mt.P(mt.V("s"))}}}, mt.Set{Name: "q", E: mt.I(1)}, mt.P(mt.V("q")))},
	}
}

func c13Ctx() map[string]mt.Val {
	return map[string]mt.Val{"markup": "<a> x </a> <b>y</b>  <i> </i>", "yes": true, "no": false, "s": "S", "xs": []mt.Val{int64(1), int64(0), int64(2)}, "none": []mt.Val{}}
}

const wsChars = " \t\r\n"

// (the second row: characters whose code point ends in the byte of a blank - 0x20, 0x09, 0x0A, 0x0D - and is none)
var c13NearWS = []string{"\u00a0", "\v", "\f", "\u0085", "\u2003", "\u2028", "\u3000", "\x00", "\ufeff", "\x1f", "\xa0", "\u200b",
	"\u0120", "\u010d", "\u0109", "\u010a", "\u2020", "\u4e0a", "\u4e09", "\u4e0d", "\U0001f609", "\u0420"}

func randWS(r *core.Rand) string {
	n := []int{0, 0, 1, 1, 2, 3, 4}[r.Intn(7)]
	b := make([]byte, n)
	for i := range b {
		b[i] = wsChars[r.Intn(4)]
	}
	return string(b)
}

// padPieces rewrites every text piece as W1 + core + W2 with a non-blank core.
func padPieces(r *core.Rand, ps []mt.Piece) []mt.Piece {
	out := make([]mt.Piece, len(ps))
	copy(out, ps)
	for i := range out {
		if out[i].Tag {
			continue
		}
		corep := strings.Trim(out[i].Text, wsChars)
		if corep == "" {
			corep = []string{"x", "é", ".", "w"}[r.Intn(4)]
		}
		// characters that look like whitespace but are not among the four the statement names: trimming must stop at them
		if r.P(1, 6) {
			corep = c13NearWS[r.Intn(len(c13NearWS))] + randWS(r) + corep
		}
		if r.P(1, 6) {
			corep = corep + randWS(r) + c13NearWS[r.Intn(len(c13NearWS))]
		}
		// the nearest non-blank text may be a backslash-escaped delimiter (text like any other, written by another code path
		// of the tokenizers); decided by the text itself so that the generator's stream is what it was
		switch core.Hash64(corep, fmt.Sprint(i), "escaped-delimiter") % 12 {
		case 0:
			corep = "\\{{ esc }}" + corep
		case 1:
			corep = "\\{% esc %}" + corep
		case 2:
			corep = corep + "\\{# esc #}."
		}
		out[i].Text = randWS(r) + corep + randWS(r)
	}
	return out
}

func dashable(ps []mt.Piece) []int {
	var idx []int
	inVerb := false
	for i, p := range ps {
		if !p.Tag || p.NoDash {
			continue
		}
		_ = inVerb
		idx = append(idx, i)
	}
	return idx
}

// applyDashes returns (dashed pieces, hand-trimmed pieces, borders-whitespace?)
func applyDashes(ps []mt.Piece, tags []int, mask uint64) ([]mt.Piece, []mt.Piece, bool) {
	return applyDashBits(ps, tags, func(i int) bool { return i < 64 && mask&(1<<uint(i)) != 0 })
}

// applyDashBits: bit(2k) = left dash of tag k, bit(2k+1) = its right dash (any number of tags).
func applyDashBits(ps []mt.Piece, tags []int, bit func(int) bool) ([]mt.Piece, []mt.Piece, bool) {
	dashed := make([]mt.Piece, len(ps))
	hand := make([]mt.Piece, len(ps))
	copy(dashed, ps)
	copy(hand, ps)
	effective := false
	for k, ti := range tags {
		l := bit(2 * k)
		rr := bit(2*k + 1)
		dashed[ti].DashL, dashed[ti].DashR = l, rr
		if l && ti > 0 && !hand[ti-1].Tag {
			t := strings.TrimRight(hand[ti-1].Text, wsChars)
			if t != hand[ti-1].Text {
				effective = true
			}
			hand[ti-1].Text = t
		}
		if rr && ti+1 < len(hand) && !hand[ti+1].Tag {
			t := strings.TrimLeft(hand[ti+1].Text, wsChars)
			if t != hand[ti+1].Text {
				effective = true
			}
			hand[ti+1].Text = t
		}
	}
	return dashed, hand, effective
}

// c13InnerBlanks: in a quarter of the cases (decided by the source itself, so that the generators' streams stay what they
// were) the single blank between a delimiter and the content of a tag becomes a run of 1-3 characters of {space, tab, CR,
// LF} — the whitespace a dash sits next to on its inner side. The plain and the hand-trimmed twin get the same runs.
func c13InnerBlanks(rec *core.Recorder, ps []mt.Piece) []mt.Piece {
	h := core.Hash64(mt.Join(ps), "inner-blanks")
	if h%4 != 0 {
		return ps
	}
	out := make([]mt.Piece, len(ps))
	copy(out, ps)
	run := func(i int, side string) string {
		x := core.Hash64(fmt.Sprint(h, i, side))
		n := 1 + int(x%3)
		b := make([]byte, n)
		for k := range b {
			x /= 4
			b[k] = wsChars[x%4]
		}
		return string(b)
	}
	changed := false
	for i := range out {
		q := &out[i]
		if !q.Tag || q.NoDash || q.Open == "{#" || strings.Contains(q.Kind, "verbatim") || q.Kind == "raw" || len(q.Inner) < 3 {
			continue
		}
		if q.Inner[0] == ' ' && q.Inner[1] != ' ' {
			q.Inner = run(i, "l") + q.Inner[1:]
			changed = true
		}
		if n := len(q.Inner); q.Inner[n-1] == ' ' && q.Inner[n-2] != ' ' {
			q.Inner = q.Inner[:n-1] + run(i, "r")
			changed = true
		}
	}
	if changed {
		rec.Count("inner-blank-runs", 1)
	}
	return out
}

func (p *c13) check(rec *core.Recorder, class string, srcsPlain map[string]string, main string, ps []mt.Piece, tags []int, mask uint64, ctx map[string]interface{}) {
	p.checkBits(rec, class, srcsPlain, main, ps, tags, func(i int) bool { return i < 64 && mask&(1<<uint(i)) != 0 }, ctx)
}

func (p *c13) checkBits(rec *core.Recorder, class string, srcsPlain map[string]string, main string, ps []mt.Piece, tags []int, bit func(int) bool, ctx map[string]interface{}) {
	ps = c13InnerBlanks(rec, ps)
	dashed, hand, effective := applyDashBits(ps, tags, bit)
	dsrc, hsrc, psrc := mt.Join(dashed), mt.Join(hand), mt.Join(ps)
	mk := func(s string) map[string]string {
		m := map[string]string{}
		for k, v := range srcsPlain {
			m[k] = v
		}
		m[main] = s
		return m
	}
	rec.Eval(class, dsrc, effective)
	if len(dsrc) > 4096 {
		rec.Count("long-sources", 1)
	}
	rp := renderFresh(mk(psrc), main, ctx, nil)
	rh := renderFresh(mk(hsrc), main, ctx, nil)
	rd := renderFresh(mk(dsrc), main, ctx, nil)
	cs := map[string]any{"dashed": dsrc, "hand_trimmed": hsrc, "plain": psrc}
	if len(dsrc) > 3000 {
		cs = map[string]any{"dashed": core.Trunc(dsrc, 1500), "len": len(dsrc)}
	}
	if rd.Panicked {
		rec.Violate("panic", "panic@"+rd.Site, "engine panicked: "+rd.PanicVal, cs, rd.Stack)
		return
	}
	if !rp.Panicked && !rh.Panicked && !rd.Panicked && rh.Err != nil && rd.Err == nil {
		// "never changes whether a template parses" cuts both ways: the dashes must not make a template work whose
		// hand-trimmed twin does not
		rec.Violate("dash-acceptance", core.SigHash("c13-parse-rev", dsrc),
			fmt.Sprintf("dashes changed whether the template works: the dashed source renders %s, the same source with the dashes removed and the blanks deleted by hand fails: %v; dashed source %s", core.Q(core.Trunc(rd.Out, 100)), rh.Err, core.Q(core.Trunc(dsrc, 300))), cs, "")
		return
	}
	if rp.Err != nil || rh.Err != nil || rp.Panicked || rh.Panicked {
		// the undashed templates must be fine, otherwise the case says nothing about dashes
		rec.Count("skipped-plain-fails", 1)
		rec.Notes["plain-fails"] = core.Trunc(fmt.Sprintf("%v | %v | %s", rp.Err, rh.Err, psrc), 400)
		return
	}
	if rd.Err != nil {
		rec.Violate("dash-acceptance", core.SigHash("c13-parse", dsrc),
			fmt.Sprintf("dashes changed whether the template works: %v; dashed source %s (plain source renders fine)", rd.Err, core.Q(core.Trunc(dsrc, 300))), cs, "")
		return
	}
	// "no other effect": the template parsed next (a fresh engine, the same process) is not touched by the dashes of this
	// one. A fixed probe that begins and ends with blanks around its tags, and the hand-trimmed twin once more.
	probe, probeWant := " \n\t{{ 'p' }} \n{% if true %} y {% endif %}\n {{ 'q' }}  ", " \n\tp \n y \n q  "
	if core.Hash64(dsrc, "probe")%8 == 0 {
		probe, probeWant = probe+largeTwinPad, probeWant
	}
	rq := renderFresh(map[string]string{"probe": probe}, "probe", nil, nil)
	rec.Count("after-dash-probes", 1)
	if rq.Panicked || rq.Err != nil || rq.Out != probeWant {
		rec.Violate("dash-leaks", "c13-leak-probe",
			fmt.Sprintf("a template without dashes, parsed right after a dashed one, renders %s (err=%v) instead of %s; the dashed source before it: %s", core.Q(rq.Out), rq.Err, core.Q(probeWant), core.Q(core.Trunc(dsrc, 300))), cs, "")
		return
	}
	rd2 := renderFresh(mk(dsrc), main, ctx, nil)
	rh2 := renderFresh(mk(hsrc), main, ctx, nil)
	if rh2.Out != rh.Out || (rh2.Err != nil) != (rh.Err != nil) || rd2.Out != rd.Out {
		rec.Violate("dash-leaks", core.SigHash("c13-leak", dsrc),
			fmt.Sprintf("the hand-trimmed template renders %s when parsed before the dashed one and %s when parsed after it (dashed, parsed again: %s); dashed source %s", core.Q(core.Trunc(rh.Out, 200)), core.Q(core.Trunc(rh2.Out, 200)), core.Q(core.Trunc(rd2.Out, 200)), core.Q(core.Trunc(dsrc, 300))), cs, "")
		return
	}
	if rd.Out != rh.Out {
		rec.Violate("dash-vs-hand-trim", core.SigHash("c13-out", dsrc),
			fmt.Sprintf("dashed template gives %s, the hand-trimmed template gives %s; dashed source %s", core.Q(core.Trunc(rd.Out, 200)), core.Q(core.Trunc(rh.Out, 200)), core.Q(core.Trunc(dsrc, 300))), cs, "")
		return
	}
	if rec.WantSample(class) {
		cs["output"] = core.Trunc(rd.Out, 200)
		rec.Sample(class, cs)
	}
}

func (p *c13) Run(rec *core.Recorder, seed uint64, idx int, tier string) {
	r := core.NewRand("C13", seed, idx)
	corpus := c13Corpus()
	nCorpus := len(corpus) * 256 * 2
	if tier == "thorough" {
		nCorpus = len(corpus) * 4096 * 2
	}
	if idx < nCorpus {
		// the enumeration runs twice per entry: printed with blanks inside the delimiters, and without ({{-1}}, {%-if x-%})
		tight := idx >= nCorpus/2
		idx %= nCorpus / 2
		per := nCorpus / 2 / len(corpus)
		e := corpus[idx/per]
		set := e.set()
		pr := &mt.Printer{Tight: tight}
		srcs := pr.SourceSet(set)
		// fixed padding per (entry, seed) so that the subset enumeration is over one template
		pr2 := core.NewRand("C13pad", seed, idx/per*31+(idx%per)/1024)
		ps := padPieces(pr2, pr.Pieces(set.T["main"].Body))
		tags := dashable(ps)
		d := 2 * len(tags)
		var mask uint64
		k := idx % per
		if d <= 10 && (1<<d) <= per {
			if k >= 1<<d {
				// remaining budget: repeat the enumeration with other paddings
				ps = padPieces(core.NewRand("C13pad2", seed, idx), pr.Pieces(set.T["main"].Body))
				k = k % (1 << d)
			}
			mask = uint64(k)
			rec.Count("exhaustive-subsets", 1)
		} else {
			mask = r.U64() & (1<<uint(d) - 1)
			if k < 2*len(tags) {
				mask = 1 << uint(k) // every single delimiter alone
			} else if k == 2*len(tags) {
				mask = 1<<uint(d) - 1 // all
			}
		}
		if strings.HasSuffix(e.name, "-value") {
			// bodies whose text is blank only: kept as written (no padding) and every delimiter dashed, so that all of it goes
			// whichever way "nearest non-whitespace text" is read; what remains of the body is its tags
			ps = pr.Pieces(set.T["main"].Body)
			tags = dashable(ps)
			mask = 1<<uint(2*len(tags)) - 1
			rec.Count("blank-only-bodies", 1)
		}
		if r.P(1, 10) {
			// the second tokenizer: pad above 4096 bytes with a long non-blank text in front
			ps = append([]mt.Piece{{Kind: "text", Text: strings.Repeat("long-front-matter ", 260) + "|"}}, ps...)
			for i := range tags {
				tags[i]++
			}
		}
		p.check(rec, "corpus-exhaustive", srcs, "main", ps, tags, mask, ctxToGo(c13Ctx()))
		rec.Count("corpus:"+e.name, 1)
		return
	}
	if idx%16 == 5 {
		// many dashed delimiters in one template (dozens to hundreds): a unit of print, if/else and for tags between blank
		// runs, repeated; every delimiter, or a random subset of them, carries a dash
		unit := []mt.Piece{{Kind: "text", Text: "a" + randWS(r)}, {Kind: "print", Tag: true, Open: "{{", Inner: " v ", Close: "}}"}, {Kind: "text", Text: randWS(r) + "b" + randWS(r)},
			{Kind: "if", Tag: true, Open: "{%", Inner: " if t ", Close: "%}"}, {Kind: "text", Text: randWS(r) + "x" + randWS(r)}, {Kind: "else", Tag: true, Open: "{%", Inner: " else ", Close: "%}"}, {Kind: "text", Text: "y"},
			{Kind: "endif", Tag: true, Open: "{%", Inner: " endif ", Close: "%}"}, {Kind: "text", Text: randWS(r)}, {Kind: "for", Tag: true, Open: "{%", Inner: " for i in xs ", Close: "%}"}, {Kind: "text", Text: randWS(r) + "."},
			{Kind: "endfor", Tag: true, Open: "{%", Inner: " endfor ", Close: "%}"}, {Kind: "text", Text: randWS(r) + ";"}}
		reps := []int{6, 11, 12, 17, 23, 44, 90, 200}[r.Intn(8)]
		var ps []mt.Piece
		for k := 0; k < reps; k++ {
			ps = append(ps, unit...)
		}
		tags := dashable(ps)
		mode := r.Intn(3)
		seedBits := r.U64()
		bit := func(i int) bool {
			switch mode {
			case 0:
				return true
			case 1:
				return core.Hash64(fmt.Sprint(seedBits, i))%2 == 0
			}
			return i >= 2*len(tags)-int(seedBits%40)-2 // only the last few delimiters
		}
		rec.Count("many-dash-templates", 1)
		if 2*len(tags) > 64 {
			rec.Count("templates-with-more-than-64-dashed-delimiters", 1)
		}
		p.checkBits(rec, "many-dashes", map[string]string{}, "main", ps, tags, bit, map[string]interface{}{"v": "V", "t": r.Bool(), "xs": []interface{}{1, 2}})
		return
	}
	// generated programs, random subsets
	ts := GenTSet(r.Fork(), "w")
	pr := &mt.Printer{Tight: r.P(1, 4)}
	srcs := pr.SourceSet(ts.Set)
	main := ts.Entries[r.Intn(len(ts.Entries))]
	ps := padPieces(r, pr.Pieces(ts.Set.T[main].Body))
	tags := dashable(ps)
	if len(tags) > 30 {
		tags = tags[:30]
	}
	var mask uint64
	switch r.Intn(3) {
	case 0:
		mask = r.U64()
	case 1:
		mask = r.U64() & r.U64() & r.U64()
	default:
		mask = 1 << uint(r.Intn(2*len(tags)+1))
	}
	mask &= 1<<uint(2*len(tags)) - 1
	if r.P(1, 8) {
		ps = append([]mt.Piece{{Kind: "text", Text: strings.Repeat("long-front-matter ", 260) + "|"}}, ps...)
		for i := range tags {
			tags[i]++
		}
	}
	p.check(rec, "program-random", srcs, main, ps, tags, mask, ts.GoCtx())
}
