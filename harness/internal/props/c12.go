package props

import (
	"fmt"
	"strings"

	"verifharness/internal/core"
	"verifharness/internal/mt"
)

// C12 — macros bind positionally with defaults, alike however reached.
type c12 struct{ base }

func init() {
	Register(&c12{base{
		id: "C12", level: "exploration",
		technique: "reference-model monitor plus cross-form agreement: every (signature, defaults, argument count, body) is called through direct / _self / import / from-import / aliased from-import from five call sites; exhaustive grid for <= 3 parameters + random",
		rule: "case = macro signature (0-3 parameters, any subset with defaults) x argument count (0..n+2) x body kind x call form x call site; expected bytes from the reference interpreter, and the bytes of the macro call must be identical across the five call forms. " +
			"Non-trivial: at least one parameter and (arguments != parameters or a default is used). Distinct = distinct (templates, context).",
		assumptions: []string{
			"macro bodies read only their parameters and their own set variables; macros are defined before use; no recursion, no named arguments",
			"a macro reached through import/from-import calls sibling macros only through an import written inside its own body",
			"the reference interpreter (internal/mt) is trusted to transcribe the statement",
		},
		quick: 7900 + 40000, thorough: 7900 + 1000000, minQuick: 6000, minThorough: 40000,
	}})
}

type c12Case struct {
	n, mask, nargs, form, site, body int
	tight                            bool
	argSeed                          uint64
}

var c12Forms = []string{"direct", "_self", "import", "from", "from-alias"}

func (p *c12) macros(c c12Case, r *core.Rand, inLib bool) []mt.Stmt {
	params := []string{"p1", "p2", "p3"}[:c.n]
	defaults := map[string]mt.Expr{}
	dvals := []mt.Expr{mt.S("d1"), mt.Op("+", mt.V("n"), mt.I(1)), mt.Op("~", mt.V("base"), mt.S("!"))}
	for i := 0; i < c.n; i++ {
		if c.mask&(1<<i) != 0 {
			defaults[params[i]] = dvals[i]
		}
	}
	pv := func(i int) mt.Expr {
		if i >= 0 && i < c.n {
			return mt.V(params[i])
		}
		return mt.S("-")
	}
	inner := mt.Macro{Name: "inner", Params: []string{"x", "y"}, Defaults: map[string]mt.Expr{"y": mt.S("dy")},
		Body: []mt.Stmt{mt.T("<i:"), mt.P(mt.V("x")), mt.T(","), mt.P(mt.V("y")), mt.T(">")}}
	var body []mt.Stmt
	switch c.body {
	case 0:
		body = []mt.Stmt{mt.T("[")}
		for i := 0; i < c.n; i++ {
			if i > 0 {
				body = append(body, mt.T("|"))
			}
			body = append(body, mt.P(mt.V(params[i])))
		}
		body = append(body, mt.T("]"))
	case 1:
		body = []mt.Stmt{mt.P(mt.Op("~", mt.Op("~", pv(0), mt.S("-")), pv(1))),
			mt.If{Conds: []mt.Expr{pv(2)}, Bodies: [][]mt.Stmt{{mt.T("Y")}}, HasElse: true, Else: []mt.Stmt{mt.T("N")}},
			mt.Set{Name: "leak", E: mt.S("LEAK")}, mt.P(mt.V("leak"))}
	case 2:
		body = []mt.Stmt{mt.Set{Name: "acc", E: mt.S("")}, mt.For{Val: "i", Seq: mt.Arr{Items: []mt.Expr{mt.I(1), mt.I(2)}},
			Body: []mt.Stmt{mt.Set{Name: "acc", E: mt.Op("~", mt.Op("~", mt.V("acc"), pv(0)), mt.V("i"))}}}, mt.P(mt.V("acc")), mt.T("/"), mt.P(pv(c.n - 1))}
	default:
		var call mt.Expr
		if inLib {
			body = []mt.Stmt{mt.Import{E: mt.S("lib"), Alias: "own"}}
			call = mt.MCall{Prefix: "own", Name: "inner", Args: []mt.Expr{pv(0)}}
		} else if c.form == 1 {
			call = mt.MCall{Prefix: "_self", Name: "inner", Args: []mt.Expr{pv(0)}}
		} else {
			call = mt.MCall{Name: "inner", Args: []mt.Expr{pv(0)}}
		}
		body = append(body, mt.T("(o "), mt.P(call), mt.P(pv(1)), mt.T(" o)"))
	}
	m := mt.Macro{Name: "m", Params: params, Defaults: defaults, Body: body}
	return []mt.Stmt{inner, m}
}

func (p *c12) build(c c12Case) (*mt.TmplSet, map[string]mt.Val) {
	r := core.NewRand("C12args", c.argSeed, 0)
	set := mt.NewSet()
	set.Add("lib", p.macros(c, r, true))
	argPool := []mt.Expr{mt.S("A1"), mt.V("n"), mt.Op("~", mt.V("base"), mt.S("x")), mt.I(0), mt.S(""), mt.Op("*", mt.V("n"), mt.I(2)), mt.Null(), mt.S("é")}
	args := make([]mt.Expr, c.nargs)
	for i := range args {
		args[i] = argPool[r.Intn(len(argPool))]
	}
	var pre []mt.Stmt
	var call mt.Expr
	switch c.form {
	case 0:
		pre = p.macros(c, r, false)
		call = mt.MCall{Name: "m", Args: args}
	case 1:
		pre = p.macros(c, r, false)
		call = mt.MCall{Prefix: "_self", Name: "m", Args: args}
	case 2:
		pre = []mt.Stmt{mt.Import{E: mt.S("lib"), Alias: "L"}}
		call = mt.MCall{Prefix: "L", Name: "m", Args: args}
	case 3:
		pre = []mt.Stmt{mt.FromImport{E: mt.S("lib"), Names: []string{"m"}}}
		call = mt.MCall{Name: "m", Args: args}
	default:
		pre = []mt.Stmt{mt.FromImport{E: mt.S("lib"), Names: []string{"inner", "m"}, Aliases: map[string]string{"m": "mk"}}}
		call = mt.MCall{Name: "mk", Args: args}
	}
	use := []mt.Stmt{mt.T("«"), mt.P(call), mt.T("»")}
	probe := []mt.Stmt{mt.T("("), mt.P(mt.V("leak")), mt.P(mt.V("acc")), mt.P(mt.V("p1")), mt.T(")")}
	var main []mt.Stmt
	switch c.site {
	case 0:
		main = append(append(pre, use...), probe...)
	case 1:
		main = append(pre, mt.For{Val: "k", Seq: mt.Arr{Items: []mt.Expr{mt.I(1), mt.I(2)}}, Body: append(use, mt.P(mt.V("k")))})
		main = append(main, probe...)
	case 2:
		main = append(pre, mt.Block{Name: "c", Body: use})
		main = append(main, probe...)
	case 3:
		// call site inside an included template (which brings the macro into its own scope)
		set.Add("part", append(append([]mt.Stmt{}, pre...), use...))
		main = append([]mt.Stmt{mt.T("inc:"), mt.Include{E: mt.S("part")}}, probe...)
	default:
		// call site inside another macro of the calling template
		body := append(append([]mt.Stmt{}, pre...), use...)
		main = []mt.Stmt{mt.Macro{Name: "site", Params: []string{"n", "base"}, Body: body}, mt.P(mt.MCall{Name: "site", Args: []mt.Expr{mt.V("n"), mt.V("base")}})}
		main = append(main, probe...)
	}
	set.Add("main", main)
	ctx := map[string]mt.Val{"n": int64(4), "base": "B", "p1": "OUTER1", "p2": "OUTER2", "x": "OUTERX"}
	return set, ctx
}

func (p *c12) render(rec *core.Recorder, c c12Case, class string, nontrivial bool) (string, bool) {
	set, ctx := p.build(c)
	in := mt.NewInterp(set)
	want, werr := in.Render("main", ctx)
	if werr != nil {
		rec.Count("skipped-referr", 1)
		rec.Notes["referr"] = werr.Error()
		return "", false
	}
	pr := &mt.Printer{Tight: c.tight}
	srcs := maybeLarge(rec, pr.SourceSet(set))
	canon := canonSrcs(srcs) + canonCtx(ctx)
	rec.Eval(class, canon, nontrivial)
	rec.Count("form:"+c12Forms[c.form], 1)
	res := renderFresh(srcs, "main", ctxToGo(ctx), nil)
	if res.Panicked {
		rec.Violate("panic", "panic@"+res.Site, "engine panicked: "+res.PanicVal, caseDump(srcs, "main", ctx, nil), res.Stack)
		return "", false
	}
	if res.Err != nil || res.Out != want {
		rec.Violate("reference-model", core.SigHash("c12", canon),
			fmt.Sprintf("%s call: engine gave %s (err=%v), statement requires %s; templates %v", c12Forms[c.form], core.Q(core.Trunc(res.Out, 300)), res.Err, core.Q(core.Trunc(want, 300)), srcs),
			caseDump(srcs, "main", ctx, map[string]any{"expected": want, "got": res.Out, "err": res.ErrStr(), "form": c12Forms[c.form]}), "")
		return "", false
	}
	if rec.WantSample(class) {
		rec.Sample(class, map[string]any{"templates": srcs, "output": want, "form": c12Forms[c.form]})
	}
	// the macro's own bytes: between « and »
	out := res.Out
	a, b := indexOf(out, "«"), indexOf(out, "»")
	if a >= 0 && b > a {
		return out[a:b], true
	}
	return out, true
}

func indexOf(s, sub string) int {
	for i := 0; i+len(sub) <= len(s); i++ {
		if s[i:i+len(sub)] == sub {
			return i
		}
	}
	return -1
}

// aliasRebind: one alias (or imported name) bound to macros of two different libraries, in the same template, in an
// included partial, in a macro body and in a loop. Each call must reach the library the nearest import named, and the
// includer's / caller's binding is untouched afterwards. Expected output is known by construction.
func (p *c12) aliasRebind(rec *core.Recorder, r *core.Rand) {
	a, b, c := fmt.Sprint(r.Range(1, 99)), fmt.Sprint(r.Range(100, 199)), fmt.Sprint(r.Range(200, 299))
	alias := []string{"m", "forms", "lib", "x"}[r.Intn(4)]
	srcs := map[string]string{
		"la": "{% macro x(v, w = 'da') %}<a:{{ v }}:{{ w }}>{% endmacro %}",
		"lb": "{% macro x(v, w = 'db') %}<b:{{ v }}:{{ w }}>{% endmacro %}",
	}
	A := func(v string) string { return "<a:" + v + ":da>" }
	B := func(v string) string { return "<b:" + v + ":db>" }
	var want string
	v := r.Intn(26)
	L := func(v string) string { return "<l:" + v + ":dl>" }
	local := "{% macro x(v, w = 'dl') %}<l:{{ v }}:{{ w }}>{% endmacro %}"
	// a library whose macros call each other and themselves, by name and through _self
	srcs["ls"] = "{% macro outer(v) %}[{{ inner(v) }}{{ _self.inner(v) }}]{% endmacro %}{% macro inner(v) %}<i:{{ v }}>{% endmacro %}" +
		"{% macro rec(n) %}{{ n }}{% if n > 1 %},{{ _self.rec(n - 1) }}{% endif %}{% endmacro %}{% macro rec2(n) %}{{ n }}{% if n > 1 %};{{ rec2(n - 1) }}{% endif %}{% endmacro %}"
	sib := func(v string) string { return "[<i:" + v + "><i:" + v + ">]|3,2,1|2;1" }
	switch v {
	case 25:
		// a template that extends another calls its own macro above the place where it is written (a top-level set, and
		// inside its block), as a standalone template can
		srcs["lay"] = "[{% block body %}d{% endblock %}]"
		srcs["main"] = "{% extends 'lay' %}{% set held = x(" + a + ") %}" + local + "{% block body %}{{ held }}|{{ x(" + b + ") }}|{{ _self.x(" + c + ", 'k') }}{% endblock %}"
		want = "[" + L(a) + "|" + L(b) + "|<l:" + c + ":k>]"
	case 24:
		// a library whose macros use what the library imports at its top level (a module and an aliased from-import),
		// however the library is reached; a parameter named like the module shadows it
		srcs["lu"] = "{% import 'la' as ua %}{% from 'lb' import x as bx %}{% macro both(v) %}{{ ua.x(v) }}{{ bx(v, 'k') }}{% endmacro %}{% macro shadow(ua) %}({{ ua }}){% endmacro %}"
		own := []string{"", "{% macro bx(v) %}WRONG{% endmacro %}", "{% set ua = 'WRONG' %}"}[r.Intn(3)]
		switch r.Intn(5) {
		case 0:
			srcs["main"] = own + "{% import 'lu' as " + alias + " %}{{ " + alias + ".both(" + a + ") }}|{{ " + alias + ".shadow(" + b + ") }}"
		case 1:
			srcs["main"] = own + "{% from 'lu' import both as b9, shadow %}{{ b9(" + a + ") }}|{{ shadow(" + b + ") }}"
		case 2:
			srcs["main"] = own + "{% from 'lu' import both, shadow %}{% for i in [1] %}{{ both(" + a + ") }}{% endfor %}|{% if true %}{{ shadow(" + b + ") }}{% endif %}"
		case 3:
			srcs["main"] = "{% include 'part' %}"
			srcs["part"] = own + "{% import 'lu' as " + alias + " %}{{ " + alias + ".both(" + a + ") }}|{{ " + alias + ".shadow(" + b + ") }}"
		default:
			srcs["main"] = srcs["lu"] + "{{ both(" + a + ") }}|{{ _self.shadow(" + b + ") }}"
		}
		want = A(a) + "<b:" + a + ":k>|(" + b + ")"
	case 23:
		// parameters named like things the engine binds itself (loop, _self-less names such as block, parent): a parameter is
		// bound to its argument whatever its name, directly and through imports, inside a for loop
		srcs["lp"] = "{% macro row(item, loop) %}{{ loop.index }}:{{ item }}/{{ loop.last ? 'L' : '-' }};{% endmacro %}{% macro cell(block, parent = 'dp') %}<{{ block }}|{{ parent }}>{% endmacro %}"
		switch r.Intn(3) {
		case 0:
			srcs["main"] = srcs["lp"] + "{% for it in ['a', 'b'] %}{{ row(it, loop) }}{% endfor %}|{{ cell(" + a + ") }}|{{ _self.row('z', {'index': 9, 'last': true}) }}"
		case 1:
			srcs["main"] = "{% import 'lp' as " + alias + " %}{% for it in ['a', 'b'] %}{{ " + alias + ".row(it, loop) }}{% endfor %}|{{ " + alias + ".cell(" + a + ") }}|{{ " + alias + ".row('z', {'index': 9, 'last': true}) }}"
		default:
			srcs["main"] = "{% from 'lp' import row as rw, cell %}{% for it in ['a', 'b'] %}{{ rw(it, loop) }}{% endfor %}|{{ cell(" + a + ") }}|{{ rw('z', {'index': 9, 'last': true}) }}"
		}
		want = "1:a/-;2:b/L;|<" + a + "|dp>|9:z/L;"
	case 22:
		// a macro called above the place where it is written, directly and through _self, at the top level, in a loop and in
		// an included template
		switch r.Intn(3) {
		case 0:
			srcs["main"] = "{{ x(" + a + ") }}|{{ _self.x(" + b + ") }}" + local
		case 1:
			srcs["main"] = "{% for i in [1] %}{{ x(" + a + ") }}{% endfor %}|{% if true %}{{ _self.x(" + b + ") }}{% endif %}" + local + "{{ 0 ? 'n' : '' }}"
		default:
			srcs["main"] = "{% include 'part' %}"
			srcs["part"] = "{{ x(" + a + ") }}|{{ _self.x(" + b + ") }}" + local
		}
		want = L(a) + "|" + L(b)
	case 20:
		// a library that defines one macro only, which calls itself (by name or through _self), however it is reached; the
		// importing template's own macro of the same name is not what it calls
		byName := r.Intn(2) == 0
		srcs["l1"] = "{% macro tree(n) %}{{ n }}{% if n > 0 %}-{{ " + map[bool]string{true: "tree", false: "_self.tree"}[byName] + "(n - 1) }}{% endif %}{% endmacro %}"
		own := []string{"", "{% macro tree(n) %}WRONG{% endmacro %}"}[r.Intn(2)]
		switch r.Intn(4) {
		case 0:
			srcs["main"] = own + "{% import 'l1' as " + alias + " %}{{ " + alias + ".tree(2) }}|{{ " + alias + ".tree(0) }}"
		case 1:
			srcs["main"] = own + "{% from 'l1' import tree as t9 %}{{ t9(2) }}|{{ t9(0) }}"
		case 2:
			srcs["main"] = "{% from 'l1' import tree %}{{ tree(2) }}|{{ tree(0) }}"
		default:
			srcs["main"] = srcs["l1"] + "{{ tree(2) }}|{{ _self.tree(0) }}"
		}
		want = "2-1-0|0"
	case 21:
		// a default expression that calls another macro of the defining template, however the macro is reached
		srcs["ld"] = "{% macro bb(x) %}<{{ x }}>{% endmacro %}{% macro aa(x, y = bb(7), z = 'dz') %}[{{ x }}|{{ y }}|{{ z }}]{% endmacro %}"
		own := []string{"", "{% macro bb(x) %}WRONG{% endmacro %}"}[r.Intn(2)]
		switch r.Intn(4) {
		case 0:
			srcs["main"] = own + "{% import 'ld' as " + alias + " %}{{ " + alias + ".aa(" + a + ") }}|{{ " + alias + ".aa(" + b + ", 'k') }}"
		case 1:
			srcs["main"] = own + "{% from 'ld' import aa as a9 %}{{ a9(" + a + ") }}|{{ a9(" + b + ", 'k') }}"
		case 2:
			srcs["main"] = own + "{% from 'ld' import aa %}{{ aa(" + a + ") }}|{{ aa(" + b + ", 'k') }}"
		default:
			srcs["main"] = srcs["ld"] + "{{ aa(" + a + ") }}|{{ _self.aa(" + b + ", 'k') }}"
		}
		want = "[" + a + "|<7>|dz]|[" + b + "|k|dz]"
	case 12:
		// an aliased import of another library's x leaves the template's own x alone
		srcs["main"] = local + "{% from 'lb' import x as y %}{{ y(" + a + ") }}|{{ x(" + b + ") }}|{{ _self.x(" + c + ") }}"
		want = B(a) + "|" + L(b) + "|" + L(c)
	case 13:
		srcs["main"] = "{% from 'la' import x %}{% from 'lb' import x as y %}{{ x(" + a + ") }}|{{ y(" + b + ") }}|{{ x(" + c + ") }}"
		want = A(a) + "|" + B(b) + "|" + A(c)
	case 14:
		// macros that call their siblings, however the library is reached; the importing template's own macros of the
		// same names are not what they call
		own := []string{"", "{% macro inner(v) %}<WRONG:{{ v }}>{% endmacro %}{% macro rec(n) %}WRONG{% endmacro %}{% macro rec2(n) %}WRONG{% endmacro %}"}[r.Intn(2)]
		switch r.Intn(4) {
		case 0:
			srcs["main"] = own + "{% import 'ls' as " + alias + " %}{{ " + alias + ".outer(" + a + ") }}|{{ " + alias + ".rec(3) }}|{{ " + alias + ".rec2(2) }}"
		case 1:
			srcs["main"] = "{% from 'ls' import outer, rec, rec2 %}{{ outer(" + a + ") }}|{{ rec(3) }}|{{ rec2(2) }}"
		case 2:
			srcs["main"] = own + "{% from 'ls' import outer as o2, rec as r2, rec2 as r3 %}{{ o2(" + a + ") }}|{{ r2(3) }}|{{ r3(2) }}"
		default:
			srcs["main"] = srcs["ls"] + "{{ outer(" + a + ") }}|{{ _self.rec(3) }}|{{ rec2(2) }}"
		}
		want = sib(a)
	case 15:
		srcs["main"] = "{% for i in [1] %}{% include 'part' %}{% endfor %}"
		srcs["part"] = "{% macro inner(v) %}<WRONG>{% endmacro %}{% import 'ls' as " + alias + " %}{{ " + alias + ".outer(" + a + ") }}|{{ " + alias + ".rec(3) }}|{{ " + alias + ".rec2(2) }}"
		want = sib(a)
	case 18:
		// the value of a macro call used more than once: stored with set, passed on as an argument that is printed twice
		srcs["lw"] = "{% macro wrap(inner, n = 2) %}[{{ inner }}|{{ inner }}]{% endmacro %}"
		form := r.Intn(3)
		call := []string{alias + ".x(" + a + ", 'k')", "x(" + a + ", 'k')", "_self.x(" + a + ", 'k')"}[form]
		head := "{% import 'la' as " + alias + " %}{% import 'lw' as W %}"
		wantX := "<a:" + a + ":k>"
		if form != 0 {
			head = local + "{% import 'lw' as W %}"
			wantX = "<l:" + a + ":k>"
		}
		srcs["main"] = head + "{% set held = " + call + " %}{{ held }}|{{ held }}|{{ W.wrap(" + call + ") }}|{% for i in [1, 2] %}{{ held }}{% endfor %}"
		want = wantX + "|" + wantX + "|[" + wantX + "|" + wantX + "]|" + wantX + wantX
	case 19:
		// a macro call under filters, concatenation, comparison and conditions has the value it prints
		srcs["main"] = "{% import 'la' as " + alias + " %}" + local + "{{ " + alias + ".x(" + a + ")|upper }}|{{ x(" + b + ") ~ '!' }}|{{ _self.x(" + c + ")|length }}|{% if " + alias + ".x(1) == '<a:1:da>' %}eq{% else %}ne{% endif %}|{{ [x(2), x(3)]|join('+') }}"
		want = strings.ToUpper(A(a)) + "|" + L(b) + "!|" + fmt.Sprint(len(L(c))) + "|eq|" + L("2") + "+" + L("3")
	case 17:
		// imports and macro definitions at the top of a template that extends a layout serve the blocks of that template
		srcs["lay12"] = "[{% block c %}dflt{% endblock %}]"
		srcs["main"] = "{% extends 'lay12' %}{% import 'la' as " + alias + " %}{% from 'lb' import x as bx %}" + local +
			"{% block c %}{{ " + alias + ".x(" + a + ") }}|{{ bx(" + b + ") }}|{{ x(" + c + ") }}|{{ _self.x(" + c + ") }}{% endblock %}"
		want = "[" + A(a) + "|" + B(b) + "|" + L(c) + "|" + L(c) + "]"
	case 16:
		// from-import of one name, then an aliased import of a different macro: neither disturbs the other nor the local one
		srcs["main"] = local + "{% from 'la' import x as ax %}{% from 'lb' import x as bx %}{{ ax(" + a + ") }}|{{ bx(" + b + ") }}|{{ x(" + c + ") }}|{{ ax(" + c + ") }}"
		want = A(a) + "|" + B(b) + "|" + L(c) + "|" + A(c)
	case 0:
		srcs["main"] = "{% import 'la' as " + alias + " %}{{ " + alias + ".x(" + a + ") }}|{% import 'lb' as " + alias + " %}{{ " + alias + ".x(" + b + ") }}"
		want = A(a) + "|" + B(b)
	case 1:
		srcs["main"] = "{% import 'la' as " + alias + " %}{{ " + alias + ".x(" + a + ") }}|{% include 'part' %}|{{ " + alias + ".x(" + c + ") }}"
		srcs["part"] = "{% import 'lb' as " + alias + " %}{{ " + alias + ".x(" + b + ") }}"
		want = A(a) + "|" + B(b) + "|" + A(c)
	case 2:
		srcs["main"] = "{% import 'la' as " + alias + " %}{% import 'lc' as caller %}{{ " + alias + ".x(" + a + ") }}|{{ caller.call(" + b + ") }}|{{ " + alias + ".x(" + c + ") }}"
		srcs["lc"] = "{% macro call(v) %}{% import 'lb' as " + alias + " %}{{ " + alias + ".x(v) }}{% endmacro %}"
		want = A(a) + "|" + B(b) + "|" + A(c)
	case 3:
		srcs["main"] = "{% from 'la' import x %}{{ x(" + a + ") }}|{% from 'lb' import x %}{{ x(" + b + ") }}"
		want = A(a) + "|" + B(b)
	case 4:
		srcs["main"] = "{% from 'la' import x as " + alias + "f %}{{ " + alias + "f(" + a + ") }}|{% from 'lb' import x as " + alias + "f %}{{ " + alias + "f(" + b + ") }}"
		want = A(a) + "|" + B(b)
	case 5:
		srcs["main"] = "{% for n in ['la', 'lb', 'la'] %}{% import n as " + alias + " %}{{ " + alias + ".x(loop.index) }}{% endfor %}"
		want = A("1") + B("2") + A("3")
	case 6:
		srcs["main"] = "{% import 'la' as " + alias + " %}{{ " + alias + ".x(" + a + ") }}|{% include 'part' only %}|{{ " + alias + ".x(" + c + ") }}"
		srcs["part"] = "{% import 'lb' as " + alias + " %}{{ " + alias + ".x(" + b + ") }}"
		want = A(a) + "|" + B(b) + "|" + A(c)
	case 7:
		srcs["main"] = "{% from 'la' import x %}{{ x(" + a + ") }}|{% include 'part' %}|{{ x(" + c + ") }}"
		srcs["part"] = "{% from 'lb' import x %}{{ x(" + b + ") }}"
		want = A(a) + "|" + B(b) + "|" + A(c)
	case 9, 10, 11:
		// a macro named like a built-in function is still the macro, however it is called
		bn := []string{"max", "min", "cycle", "range", "length", "date", "merge"}[r.Intn(7)]
		def := "{% macro " + bn + "(p, q = 'dq') %}<m:{{ p }}:{{ q }}>{% endmacro %}"
		srcs["lbn"] = def
		w1 := "<m:" + a + ":dq>"
		switch r.Intn(5) {
		case 0:
			srcs["main"] = def + "{{ " + bn + "(" + a + ") }}"
		case 1:
			srcs["main"] = def + "{{ _self." + bn + "(" + a + ") }}"
		case 2:
			srcs["main"] = "{% import 'lbn' as " + alias + " %}{{ " + alias + "." + bn + "(" + a + ") }}"
		case 3:
			srcs["main"] = "{% from 'lbn' import " + bn + " %}{{ " + bn + "(" + a + ") }}"
		default:
			srcs["main"] = "{% from 'lbn' import " + bn + " as zz %}{{ zz(" + a + ") }}"
		}
		want = w1
	default:
		srcs["main"] = "{% import 'la' as " + alias + " %}{% for i in [1, 2] %}{% include 'part' %}{{ " + alias + ".x(i) }}{% endfor %}"
		srcs["part"] = "{% import 'lb' as " + alias + " %}{{ " + alias + ".x('p') }}"
		want = B("p") + A("1") + B("p") + A("2")
	}
	canon := canonSrcs(srcs)
	rec.Eval("alias-rebind", canon, true)
	rec.Count(fmt.Sprintf("alias-rebind:%d", v), 1)
	res := renderFresh(srcs, "main", nil, nil)
	if res.Panicked {
		rec.Violate("panic", "panic@"+res.Site, "engine panicked: "+res.PanicVal, map[string]any{"templates": srcs}, res.Stack)
		return
	}
	if res.Err != nil || res.Out != want {
		rec.Violate("alias-rebind", fmt.Sprintf("c12-alias-rebind:%d", v),
			fmt.Sprintf("a macro reached through a re-bound alias/imported name gave %s (err=%v), the nearest import requires %s; main %s", core.Q(core.Trunc(res.Out, 200)), res.Err, core.Q(want), core.Q(srcs["main"])),
			map[string]any{"templates": srcs, "expected": want}, "")
	}
}

// structuredDefaults: defaults that are hash and array literals whose members name variables, and arithmetic on a variable;
// an omitted argument takes the value of its default expression at the time of the call, through every call form.
func (p *c12) structuredDefaults(rec *core.Recorder, r *core.Rand) {
	def := "{% macro tag(name, attrs = {'class': cls, 'id': 'x'}, items = [cls, 'z'], n2 = count + 1, lit = {'a': 1}) %}<{{ name }}:{{ attrs.class }}:{{ attrs.id }}:{{ items|join('+') }}:{{ n2 }}:{{ lit.a }}>{% endmacro %}"
	form, site, explicit := r.Intn(5), r.Intn(2), r.P(1, 3)
	var pre, callee string
	switch form {
	case 0:
		pre, callee = def, "tag"
	case 1:
		pre, callee = def, "_self.tag"
	case 2:
		pre, callee = "{% import 'slib' as m %}", "m.tag"
	case 3:
		pre, callee = "{% from 'slib' import tag %}", "tag"
	default:
		pre, callee = "{% from 'slib' import tag as t %}", "t"
	}
	cls, count := []string{"hot", "é", "c1"}[r.Intn(3)], int64(r.Range(0, 50))
	args := "'div'"
	if explicit {
		args = "'div', {'class': 'given', 'id': cls}"
	}
	one := func(c string) string {
		if explicit {
			return fmt.Sprintf("<div:given:%s:%s+z:%d:1>", c, c, count+1)
		}
		return fmt.Sprintf("<div:%s:x:%s+z:%d:1>", c, c, count+1)
	}
	var main, want string
	if site == 0 {
		main, want = pre+"{{ "+callee+"("+args+") }}", one(cls)
	} else {
		main = pre + "{% for cls in ['a', 'b'] %}{{ " + callee + "(" + args + ") }}{% endfor %}"
		want = one("a") + one("b")
	}
	srcs := map[string]string{"slib": def, "main": main}
	canon := canonSrcs(srcs) + cls + fmt.Sprint(count)
	rec.Eval("structured-defaults", canon, true)
	res := renderFresh(srcs, "main", map[string]interface{}{"cls": cls, "count": count}, nil)
	if res.Panicked {
		rec.Violate("panic", "panic@"+res.Site, "engine panicked: "+res.PanicVal, map[string]any{"templates": srcs}, res.Stack)
		return
	}
	if res.Err != nil || res.Out != want {
		rec.Violate("structured-defaults", fmt.Sprintf("c12-structured-default:form%d:site%d", form, site),
			fmt.Sprintf("%s call: engine gave %s (err=%v), the defaults evaluated at the call require %s; main %s", c12Forms[form], core.Q(core.Trunc(res.Out, 200)), res.Err, core.Q(want), core.Q(main)),
			map[string]any{"templates": srcs, "cls": cls, "count": count, "expected": want}, "")
	}
}

func (p *c12) Run(rec *core.Recorder, seed uint64, idx int, tier string) {
	var c c12Case
	class := "grid"
	if idx < 7900 {
		k := idx
		c.body = k % 4
		k /= 4
		c.site = k % 5
		k /= 5
		c.form = k % 5
		k /= 5
		// k in 0..78 → (n, mask, nargs)
		found := false
		for n := 0; n <= 3 && !found; n++ {
			cnt := (1 << n) * (n + 3)
			if k < cnt {
				c.n, c.mask, c.nargs = n, k/(n+3), k%(n+3)
				found = true
			} else {
				k -= cnt
			}
		}
		c.argSeed = uint64(idx/100) + seed*1000003
		c.tight = idx%7 == 3
	} else if idx%50 == 7 {
		p.aliasRebind(rec, core.NewRand("C12alias", seed, idx))
		return
	} else if idx%50 == 9 {
		p.structuredDefaults(rec, core.NewRand("C12struct", seed, idx))
		return
	} else {
		r := core.NewRand("C12", seed, idx)
		c = c12Case{n: r.Range(0, 3), form: r.Intn(5), site: r.Intn(5), body: r.Intn(4), tight: r.P(1, 4), argSeed: r.U64()}
		c.mask = r.Intn(1 << c.n)
		c.nargs = r.Range(0, c.n+3)
		class = "random"
	}
	nontrivial := c.n > 0 && (c.nargs != c.n || c.mask != 0)
	got, ok := p.render(rec, c, class, nontrivial)
	if !ok {
		return
	}
	// cross-form agreement (metamorphic): same macro + arguments through the direct form
	if c.form != 0 && idx%5 == 0 {
		d := c
		d.form = 0
		got0, ok0 := p.render(rec, d, class+"-direct-twin", false)
		if ok0 && got0 != got {
			rec.Violate("cross-form", core.SigHash("c12-forms", fmt.Sprint(c)),
				fmt.Sprintf("macro output differs between call forms: direct %s vs %s %s", core.Q(got0), c12Forms[c.form], core.Q(got)), map[string]any{"case": fmt.Sprint(c)}, "")
		}
		rec.Count("cross-form-pairs", 1)
	}
}
