package props

import (
	"fmt"
	"os"
)

// Oneshot is the entry point of `vrun oneshot <prop> ...`: a pristine process that
// performs exactly one engine operation and prints the result as JSON.
func Oneshot(args []string) {
	if len(args) < 1 {
		fmt.Fprintln(os.Stderr, "usage: vrun oneshot <prop> ...")
		os.Exit(2)
	}
	if f, ok := oneshots[args[0]]; ok {
		f(args[1:])
		return
	}
	fmt.Fprintln(os.Stderr, "no oneshot for", args[0])
	os.Exit(2)
}

var oneshots = map[string]func(args []string){}
