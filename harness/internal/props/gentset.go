package props

import (
	"fmt"

	"verifharness/internal/core"
	"verifharness/internal/mt"
)

// TSet is a generated template set with several renderable entry points.
type TSet struct {
	Set     *mt.TmplSet
	Entries []string // names that render successfully on their own
	Ctx     map[string]mt.Val
	GoOver  map[string]interface{}
	Feat    map[string]bool // features used (for evidence)
}

func (t *TSet) GoCtx() map[string]interface{} {
	m := ctxToGo(t.Ctx)
	for k, v := range t.GoOver {
		m[k] = v
	}
	return m
}

// GenTSet builds a deterministic (no map iteration, no time, no randomness at render time)
// template set that exercises includes, inheritance with parent(), imports, macros, loops,
// conditions, sets, apply, verbatim and comments. Every entry renders without error under the
// reference semantics; the reference interpreter can render all of it except `apply`-free
// limitations noted in mt.
func GenTSet(r *core.Rand, marker string) *TSet {
	pg := NewProgGen(r.Fork())
	pg.intVars = []string{"acc0"}
	ts := &TSet{Set: mt.NewSet(), Ctx: pg.Sc.Ctx, GoOver: pg.GoOver, Feat: map[string]bool{}}
	set := ts.Set
	mk := func(s string) mt.Stmt { return mt.T("⟦" + marker + s + "⟧") }
	body := func(depth, n int) []mt.Stmt {
		q := NewProgGen(r.Fork())
		q.Sc = pg.Sc
		q.G = NewExprGen(r.Fork(), pg.Sc, false)
		q.GoOver = pg.GoOver
		q.intVars = []string{"acc0"}
		return q.Body(depth, n)
	}

	// macro library
	set.Add("lib", []mt.Stmt{
		mt.Macro{Name: "field", Params: []string{"name", "val", "kind"}, Defaults: map[string]mt.Expr{"kind": mt.S("text")},
			Body: []mt.Stmt{mt.T("<input "), mt.P(mt.V("kind")), mt.T(":"), mt.P(mt.V("name")), mt.T("="), mt.P(mt.V("val")), mt.T(">")}},
		mt.Macro{Name: "twice", Params: []string{"x"}, Body: []mt.Stmt{mt.P(mt.V("x")), mt.T("+"), mt.P(mt.V("x"))}},
		mk("lib"),
	})
	// partials
	set.Add("part", append([]mt.Stmt{mk("part"), mt.T("("), mt.P(mt.V("pv")), mt.T(")")}, body(1, 2)...))
	set.Add("part2", []mt.Stmt{mk("part2"), mt.For{Val: "pi", Seq: mt.V("l3"), Body: []mt.Stmt{mt.P(mt.V("pi")), mt.T(".")}}, mt.Include{E: mt.S("part"), HasWith: true, WithKeys: []string{"pv"}, WithVals: []mt.Expr{mt.S("nested")}}})
	// layout chain
	set.Add("base", []mt.Stmt{mk("base"), mt.T("<h>"), mt.Block{Name: "title", Body: []mt.Stmt{mt.T("T0")}}, mt.T("</h><m>"),
		mt.Block{Name: "content", Body: append([]mt.Stmt{mt.T("C0:")}, body(1, 2)...)}, mt.T("</m><f>"), mt.Block{Name: "foot", Body: []mt.Stmt{mt.T("F0")}}, mt.T("</f>")})
	set.Add("mid", []mt.Stmt{mt.Extends{E: mt.S("base")}, mk("mid-ignored"),
		mt.Block{Name: "title", Body: []mt.Stmt{mt.T("T1<"), mt.P(mt.Parent{}), mt.T(">")}},
		mt.Block{Name: "content", Body: append([]mt.Stmt{mk("mid"), mt.T("C1:")}, body(2, 3)...)}})
	leafContent := []mt.Stmt{mk("leaf"), mt.T("C2["), mt.P(mt.Parent{}), mt.T("]"), mt.Include{E: mt.S("part"), HasWith: true, WithKeys: []string{"pv"}, WithVals: []mt.Expr{mt.V("s")}}}
	if r.Bool() {
		leafContent = append(leafContent, mt.Include{E: mt.S("part2")})
	}
	set.Add("leaf", []mt.Stmt{mt.Extends{E: mt.S("mid")},
		mt.Block{Name: "content", Body: leafContent},
		mt.Block{Name: "foot", Body: []mt.Stmt{}}})
	// page: imports + loops + apply + verbatim + comment
	page := []mt.Stmt{mk("page"), mt.Import{E: mt.S("lib"), Alias: "forms"}, mt.FromImport{E: mt.S("lib"), Names: []string{"twice"}, Aliases: map[string]string{"twice": "dbl"}},
		mt.P(mt.MCall{Prefix: "forms", Name: "field", Args: []mt.Expr{mt.S("user"), mt.V("s")}}),
		mt.P(mt.MCall{Name: "dbl", Args: []mt.Expr{mt.V("a")}}),
		mt.Comment{Raw: " a comment {{ not evaluated }} "},
		mt.Verbatim{Raw: "verbatim: { raw } % # body"},
		mt.Apply{Filter: "upper", Body: []mt.Stmt{mt.T("shout "), mt.P(mt.V("s"))}},
	}
	page = append(page, body(3, 4)...)
	page = append(page, mt.Include{E: mt.S("part2")})
	set.Add("page", page)
	// plain
	set.Add("plain", append([]mt.Stmt{mk("plain")}, body(3, 5)...))
	ts.Entries = []string{"page", "leaf", "mid", "base", "plain", "part2"}
	ts.Ctx["pv"] = "ctx-pv"
	ts.Feat["extends"], ts.Feat["include"], ts.Feat["import"], ts.Feat["macro"], ts.Feat["apply"], ts.Feat["verbatim"] = true, true, true, true, true, true
	return ts
}

// CtxVariant derives a deterministic variant of the context (different values, same shape).
func (t *TSet) CtxVariant(k int) map[string]mt.Val {
	if k == 0 {
		return t.Ctx
	}
	out := map[string]mt.Val{}
	for name, v := range t.Ctx {
		out[name] = v
	}
	out["s"] = fmt.Sprintf("variant%d", k)
	out["a"] = int64(10 + k)
	out["pv"] = fmt.Sprintf("pv%d", k)
	out["l3"] = []mt.Val{int64(k), int64(k + 1), int64(k + 2)}
	return out
}

func (t *TSet) GoCtxVariant(k int) map[string]interface{} {
	m := ctxToGo(t.CtxVariant(k))
	for name, v := range t.GoOver {
		m[name] = v
	}
	return m
}
