package props

import (
	"fmt"
	"time"

	"verifharness/internal/core"
	"verifharness/internal/mt"
)

// ProgGen builds statement lists whose meaning the property statements define
// (if / for / set / print over a typed scope).
type ProgGen struct {
	R      *core.Rand
	Sc     *Scope
	G      *ExprGen
	GoOver map[string]interface{} // engine-side typed replacements for context entries
	nLoop  int
	nBlock int
	nSet   int
	// feature counters (non-triviality)
	Ifs, Fors, Sets, Nested int
	intVars                 []string // assignable int accumulators in scope
	strVars                 []string
	loopInts                []string // loop variables currently bound (Int)
	loopStrs                []string
	inLoop                  int
}

// truthiness probes: name, reference value, optional typed Go value
type probe struct {
	name   string
	val    mt.Val
	goVal  interface{}
	truthy bool
}

func truthProbes() []probe {
	return []probe{
		{"f_nil", nil, nil, false},
		{"f_false", false, nil, false},
		{"f_zero", int64(0), nil, false},
		{"f_empty", "", nil, false},
		{"f_elist", []mt.Val{}, nil, false},
		{"f_emap", map[string]mt.Val{}, nil, false},
		{"f_tslice", []mt.Val{}, []string{}, false},
		{"f_tmap", map[string]mt.Val{}, map[string]string{}, false},
		{"f_islice", []mt.Val{}, []int{}, false},
		{"f_i64", int64(0), int64(0), false},
		{"t_true", true, nil, true},
		{"t_one", int64(1), nil, true},
		{"t_neg", int64(-1), nil, true},
		{"t_space", " ", nil, true},
		{"t_zerostr", "0", nil, true},
		{"t_list0", []mt.Val{int64(0)}, nil, true},
		{"t_mapnull", map[string]mt.Val{"a": nil}, nil, true},
		{"t_word", "false", nil, true},
		{"t_tslice", []mt.Val{"x"}, []string{"x"}, true},
		{"t_i64", int64(7), int64(7), true},
		// struct values are "everything else": truthy even when all their fields are zero
		{"t_zstruct", true, struct{ A, B int }{}, true},
		{"t_estruct", true, struct{}{}, true},
		{"t_ztime", true, time.Time{}, true},
		{"t_pstruct", true, &struct{ A string }{}, true},
	}
}

func NewProgGen(r *core.Rand) *ProgGen {
	sc := NewScope(r.Fork())
	pg := &ProgGen{R: r, Sc: sc, GoOver: map[string]interface{}{}}
	for _, p := range truthProbes() {
		sc.Ctx[p.name] = p.val
		if p.goVal != nil {
			pg.GoOver[p.name] = p.goVal
		}
	}
	// sequences
	for n := 0; n <= 12; n++ {
		l := make([]mt.Val, n)
		for i := range l {
			l[i] = int64(r.Range(-9, 99))
		}
		sc.Ctx[fmt.Sprintf("l%d", n)] = l
		// some of the lists reach the engine as typed slices or behind a pointer: the same sequence either way
		switch {
		case n%4 == 3:
			typed := make([]int, n)
			for i := range l {
				typed[i] = int(l[i].(int64))
			}
			if n%8 == 3 {
				pg.GoOver[fmt.Sprintf("l%d", n)] = typed
			} else {
				// (only used as a for sequence: lp7)
				sc.Ctx["lp7"] = l
				pg.GoOver["lp7"] = &typed
			}
		case n == 6:
			boxed := make([]interface{}, n)
			for i := range l {
				boxed[i] = int(l[i].(int64))
			}
			sc.Ctx["lp6"] = l
			pg.GoOver["lp6"] = &boxed
		}
	}
	sc.Ctx["sw"] = []mt.Val{"ab", "é", "日本", "q"}
	sc.Ctx["str1"] = "héy"
	sc.Ctx["str2"] = "a日b"
	sc.Ctx["str3"] = "x"
	sc.Ctx["str0"] = ""
	sc.Ctx["acc0"] = int64(0)
	pg.G = NewExprGen(r.Fork(), sc, false)
	return pg
}

// GoCtx returns the context handed to the engine.
func (pg *ProgGen) GoCtx() map[string]interface{} {
	m := ctxToGo(pg.Sc.Ctx)
	for k, v := range pg.GoOver {
		m[k] = v
	}
	return m
}

func (pg *ProgGen) cond() mt.Expr {
	r := pg.R
	switch r.Intn(10) {
	case 0, 1, 2, 3:
		ps := truthProbes()
		return mt.V(ps[r.Intn(len(ps))].name)
	case 4:
		return []mt.Expr{mt.I(0), mt.S(""), mt.Null(), mt.B(false), mt.Arr{}, mt.B(true), mt.I(5), mt.S("0"), mt.S(" "),
			mt.Arr{Items: []mt.Expr{mt.I(0)}}, mt.Hash{}, mt.Hash{Keys: []string{"a"}, Vals: []mt.Expr{mt.Null()}}}[r.Intn(12)]
	case 5:
		if len(pg.loopInts) > 0 {
			v := pg.loopInts[r.Intn(len(pg.loopInts))]
			return mt.Op([]string{"<", ">", "==", "!="}[r.Intn(4)], mt.V(v), mt.I(int64(r.Range(-3, 20))))
		}
		fallthrough
	case 6:
		if pg.inLoop > 0 {
			return mt.Attr{E: mt.V("loop"), Name: []string{"first", "last"}[r.Intn(2)]}
		}
		fallthrough
	case 7:
		if len(pg.intVars) > 0 {
			return mt.Op([]string{"<", ">=", "=="}[r.Intn(3)], mt.V(pg.intVars[r.Intn(len(pg.intVars))]), mt.I(int64(r.Range(0, 30))))
		}
		fallthrough
	case 8:
		return pg.G.Bool(r.Range(0, 2))
	default:
		return pg.G.Int(r.Range(0, 1))
	}
}

func (pg *ProgGen) loopMeta() []mt.Stmt {
	lp := func(n string) mt.Expr { return mt.Attr{E: mt.V("loop"), Name: n} }
	r := pg.R
	switch r.Intn(4) {
	case 0:
		return []mt.Stmt{mt.P(lp("index")), mt.T("/"), mt.P(lp("length"))}
	case 1:
		return []mt.Stmt{mt.P(lp("index0")), mt.T(":"), mt.P(lp("revindex")), mt.T(":"), mt.P(lp("revindex0"))}
	case 2:
		return []mt.Stmt{mt.P(mt.Cond{C: lp("first"), A: mt.S("F"), B: mt.S("-")}), mt.P(mt.Cond{C: lp("last"), A: mt.S("L"), B: mt.S("-")})}
	default:
		return []mt.Stmt{mt.T("#"), mt.P(lp("index")), mt.T("."), mt.P(lp("index0")), mt.T("."), mt.P(lp("revindex")), mt.T("."), mt.P(lp("revindex0")), mt.T("."), mt.P(lp("length")),
			mt.T("."), mt.P(mt.Cond{C: lp("first"), A: mt.S("F"), B: mt.S("-")}), mt.P(mt.Cond{C: lp("last"), A: mt.S("L"), B: mt.S("-")})}
	}
}

// seq returns a sequence expression and the element kind ("int" | "str").
func (pg *ProgGen) seq() (mt.Expr, string) {
	r := pg.R
	if r.P(1, 12) {
		// a filter chain over an undefined or empty base that yields the sequence (and one that yields nothing)
		base := []mt.Expr{mt.V("nosuchvar"), mt.V("nosuchvar2"), mt.Attr{E: mt.V("o"), Name: "nosuchkey"}, mt.S(""), mt.Arr{}}[r.Intn(5)]
		switch r.Intn(4) {
		case 0:
			return mt.Filt{E: base, Name: "default", Args: []mt.Expr{mt.Arr{Items: []mt.Expr{mt.I(int64(r.Range(1, 9))), mt.I(int64(r.Range(1, 9)))}}}}, "int"
		case 1:
			return mt.Filt{E: base, Name: "default", Args: []mt.Expr{mt.V(fmt.Sprintf("l%d", r.Intn(13)))}}, "int"
		case 2:
			return mt.Filt{E: base, Name: "default", Args: []mt.Expr{mt.S([]string{"ab", "é", ""}[r.Intn(3)])}}, "str"
		default:
			return mt.Filt{E: base, Name: "default", Args: []mt.Expr{mt.Arr{}}}, "int"
		}
	}
	if (len(pg.loopInts) > 0 || len(pg.intVars) > 0) && r.P(1, 5) {
		// a filtered sequence whose filter argument is a variable of an enclosing loop or an earlier set: the sequence is
		// worked out anew every time the loop is reached
		vars := append(append([]string{}, pg.loopInts...), pg.intVars...)
		x := mt.V(vars[r.Intn(len(vars))])
		base := mt.V(fmt.Sprintf("l%d", r.Intn(13)))
		if r.Bool() {
			return mt.Filt{E: base, Name: "slice", Args: []mt.Expr{mt.I(0), x}}, "int"
		}
		return mt.Filt{E: base, Name: "slice", Args: []mt.Expr{x}}, "int"
	}
	if r.P(1, 12) {
		return mt.V([]string{"lp6", "lp7"}[r.Intn(2)]), "int"
	}
	switch r.Intn(9) {
	case 0, 1, 2:
		return mt.V(fmt.Sprintf("l%d", r.Intn(13))), "int"
	case 3:
		return mt.V([]string{"str0", "str1", "str2", "str3"}[r.Intn(4)]), "str"
	case 4:
		return mt.S([]string{"héy", "ab", "", "日", "xyz€", "q"}[r.Intn(6)]), "str"
	case 5:
		a := int64(r.Range(-6, 6))
		b := int64(r.Range(-6, 6))
		if a <= b && r.Bool() {
			return mt.Call{Name: "range", Args: []mt.Expr{mt.I(a), mt.I(b)}}, "int"
		}
		st := int64([]int{1, 2, 3, 7}[r.Intn(4)])
		if a > b {
			st = -st
		}
		return mt.Call{Name: "range", Args: []mt.Expr{mt.I(a), mt.I(b), mt.I(st)}}, "int"
	case 6:
		k := r.Range(0, 4)
		items := make([]mt.Expr, k)
		for i := range items {
			items[i] = pg.G.Int(1)
		}
		return mt.Arr{Items: items}, "int"
	case 7:
		return mt.V("sw"), "str"
	default:
		return pg.G.IntList(1), "int"
	}
}

// Body generates a statement list.
func (pg *ProgGen) Body(depth, maxStmts int) []mt.Stmt {
	r := pg.R
	n := r.Range(1, maxStmts)
	var out []mt.Stmt
	for i := 0; i < n; i++ {
		out = append(out, pg.stmt(depth)...)
	}
	return out
}

func (pg *ProgGen) stmt(depth int) []mt.Stmt {
	r := pg.R
	k := r.Intn(12)
	if depth <= 0 && k >= 5 && k <= 9 {
		k = r.Intn(5)
	}
	switch k {
	case 0, 1:
		if h := core.Hash64(fmt.Sprint(pg.nLoop, pg.Fors, pg.Ifs, depth), "set-null"); h%7 == 0 {
			// a variable of the context is set to null and read: null is what it holds then (it prints as nothing and is
			// falsy), whatever a global, an includer or a caller holds under that name; afterwards it gets its value back
			name := []string{"str1", "str2", "str3"}[h/7%3]
			if orig, ok := pg.Sc.Ctx[name].(string); ok {
				return []mt.Stmt{mt.Set{Name: name, E: mt.Null()}, mt.T("<"), mt.P(mt.V(name)),
					mt.If{Conds: []mt.Expr{mt.V(name)}, Bodies: [][]mt.Stmt{{mt.T("T")}}, HasElse: true, Else: []mt.Stmt{mt.T("N")}}, mt.T(">"), mt.Set{Name: name, E: mt.S(orig)}}
			}
		}
		return []mt.Stmt{mt.T([]string{"x", " ", "\n", "<b>", "-", "é", "}", "%", "txt ", ";"}[r.Intn(10)])}
	case 2:
		// print something in scope
		var cands []mt.Expr
		for _, v := range pg.loopInts {
			cands = append(cands, mt.V(v))
		}
		for _, v := range pg.loopStrs {
			cands = append(cands, mt.V(v))
		}
		for _, v := range pg.intVars {
			cands = append(cands, mt.V(v))
		}
		for _, v := range pg.strVars {
			cands = append(cands, mt.V(v))
		}
		if len(cands) > 0 && r.P(3, 4) {
			return []mt.Stmt{mt.T("["), mt.P(cands[r.Intn(len(cands))]), mt.T("]")}
		}
		if r.Bool() {
			return []mt.Stmt{mt.P(pg.G.Int(r.Range(0, 2)))}
		}
		return []mt.Stmt{mt.P(pg.G.Str(r.Range(0, 2)))}
	case 3:
		if pg.inLoop > 0 {
			return pg.loopMeta()
		}
		return []mt.Stmt{mt.T("~")}
	case 4, 10:
		// set: new variable or accumulate
		pg.Sets++
		if len(pg.intVars) > 0 && r.P(2, 3) {
			v := pg.intVars[r.Intn(len(pg.intVars))]
			var add mt.Expr = mt.I(int64(r.Range(1, 5)))
			if len(pg.loopInts) > 0 && r.Bool() {
				add = mt.V(pg.loopInts[r.Intn(len(pg.loopInts))])
			} else if pg.inLoop > 0 && r.P(1, 3) {
				add = mt.Attr{E: mt.V("loop"), Name: "index"}
			}
			return []mt.Stmt{mt.Set{Name: v, E: mt.Op("+", mt.V(v), add)}}
		}
		if len(pg.strVars) > 0 && r.P(1, 2) {
			v := pg.strVars[r.Intn(len(pg.strVars))]
			var add mt.Expr = mt.S([]string{"a", "b", "é"}[r.Intn(3)])
			if len(pg.loopStrs) > 0 && r.Bool() {
				add = mt.V(pg.loopStrs[r.Intn(len(pg.loopStrs))])
			}
			return []mt.Stmt{mt.Set{Name: v, E: mt.Op("~", mt.V(v), add)}}
		}
		pg.nSet++
		if r.Bool() {
			name := fmt.Sprintf("acc%d", pg.nSet)
			pg.intVars = append(pg.intVars, name)
			return []mt.Stmt{mt.Set{Name: name, E: mt.I(int64(r.Range(0, 9)))}}
		}
		name := fmt.Sprintf("sv%d", pg.nSet)
		pg.strVars = append(pg.strVars, name)
		return []mt.Stmt{mt.Set{Name: name, E: mt.S("s")}}
	case 5, 6:
		pg.Ifs++
		nb := 1
		if r.P(1, 3) {
			nb = r.Range(2, 3)
		}
		x := mt.If{}
		var innerIf []string
		for i := 0; i < nb; i++ {
			x.Conds = append(x.Conds, pg.cond())
			// variables set in a branch are only conditionally defined: snapshot scope
			iv, sv := len(pg.intVars), len(pg.strVars)
			if r.P(1, 7) {
				// an empty branch: taken, it renders nothing and nothing else of the chain either
				x.Bodies = append(x.Bodies, []mt.Stmt{})
			} else {
				x.Bodies = append(x.Bodies, pg.Body(depth-1, 3))
			}
			innerIf = append(append(innerIf, pg.intVars[iv:]...), pg.strVars[sv:]...)
			pg.intVars, pg.strVars = pg.intVars[:iv], pg.strVars[:sv]
		}
		if r.P(1, 2) {
			x.HasElse = true
			iv, sv := len(pg.intVars), len(pg.strVars)
			x.Else = pg.Body(depth-1, 2)
			if r.P(1, 10) {
				x.Else = []mt.Stmt{}
			}
			innerIf = append(append(innerIf, pg.intVars[iv:]...), pg.strVars[sv:]...)
			pg.intVars, pg.strVars = pg.intVars[:iv], pg.strVars[:sv]
		}
		outIf := []mt.Stmt{x}
		if len(innerIf) > 0 && r.P(1, 2) {
			// a set in the branch taken is visible after endif; in a branch not taken it leaves the name undefined (prints empty)
			for _, n := range innerIf {
				outIf = append(outIf, mt.T("<"+n+"="), mt.P(mt.V(n)), mt.T(">"))
			}
		}
		return outIf
	case 7, 8, 9:
		pg.Fors++
		if pg.inLoop > 0 {
			pg.Nested++
		}
		seq, kind := pg.seq()
		pg.nLoop++
		f := mt.For{Val: fmt.Sprintf("it%d", pg.nLoop), Seq: seq}
		if r.P(1, 4) && kind == "int" {
			f.Key = fmt.Sprintf("ki%d", pg.nLoop)
		} else if kind == "str" && core.Hash64(fmt.Sprint(pg.nLoop, pg.Fors, pg.Nested), "strkey")%3 == 0 {
			// (decided without drawing from the generator's stream, so every other choice of the program stays what it was)
			// the key of a loop over a string is the character's position, whatever its width in bytes
			f.Key = fmt.Sprintf("ki%d", pg.nLoop)
		}
		li, ls := len(pg.loopInts), len(pg.loopStrs)
		if kind == "int" {
			pg.loopInts = append(pg.loopInts, f.Val)
		} else {
			pg.loopStrs = append(pg.loopStrs, f.Val)
		}
		if f.Key != "" {
			pg.loopInts = append(pg.loopInts, f.Key)
		}
		pg.inLoop++
		iv, sv := len(pg.intVars), len(pg.strVars)
		f.Body = pg.Body(depth-1, 4)
		if r.P(1, 2) {
			f.Body = append(f.Body, pg.loopMeta()...)
		}
		f.Body = append(f.Body, mt.T(","))
		// names first assigned inside the body: still visible after endfor when the loop ran (printed as probes below;
		// they are not used in later expressions because an empty sequence leaves them undefined)
		inner := append(append([]string{}, pg.intVars[iv:]...), pg.strVars[sv:]...)
		pg.intVars, pg.strVars = pg.intVars[:iv], pg.strVars[:sv]
		pg.inLoop--
		pg.loopInts, pg.loopStrs = pg.loopInts[:li], pg.loopStrs[:ls]
		if r.P(1, 2) {
			f.HasElse = true
			f.Else = []mt.Stmt{mt.T("(empty)")}
			if pg.inLoop > 0 && r.P(1, 2) {
				// the else branch of a nested loop still sees the enclosing loop's counters
				f.Else = append(append([]mt.Stmt{mt.T("(empty ")}, pg.loopMeta()...), mt.T(")"))
			}
		}
		out := []mt.Stmt{f}
		if len(inner) > 0 && r.P(2, 3) {
			for _, n := range inner {
				out = append(out, mt.T("<"+n+"="), mt.P(mt.V(n)), mt.T(">"))
			}
		}
		if pg.inLoop > 0 && r.P(2, 3) {
			// the enclosing loop's counters after the inner loop ended
			out = append(out, pg.loopMeta()...)
		}
		return out
	default:
		if depth > 0 && r.P(1, 2) {
			// a block is rendered where it stands; what its body sets stays set after endblock
			pg.nBlock++
			return []mt.Stmt{mt.Block{Name: fmt.Sprintf("pb%d", pg.nBlock), Body: pg.Body(depth-1, 3)}}
		}
		return []mt.Stmt{mt.P(pg.G.Str(1))}
	}
}
