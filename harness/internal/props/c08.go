package props

import (
	"fmt"
	"strings"

	"github.com/semihalev/twig"

	"verifharness/internal/core"
	"verifharness/internal/mt"
)

// C08 — operator table, arithmetic, position independence.
type c08 struct{ base }

func init() {
	Register(&c08{base{
		id: "C08", level: "exploration",
		technique: "reference-model monitor (typed AST evaluator + tick evaluation trace) over generated expressions in every syntactic position, exhaustive operator pairs/triples",
		rule: "case = (expression tree, syntactic position); the tree is printed with minimal, full and random-superset parentheses and each printing is rendered once on a fresh engine; " +
			"expected bytes and tick() evaluation trace come from the reference interpreter run on the generator's AST. Non-trivial: the tree has >= 2 binary/conditional operators. " +
			"Distinct = distinct canonical (template set, context).",
		assumptions: []string{
			"only value domains the statement defines are generated: ints within +-2^53 with exact division and non-negative modulo, alphabetic strings, booleans observed through ?: / if",
			"unary operands and filter/attribute bases are atoms or parenthesised; conditional parts that are not atoms are parenthesised; 'is defined' is parenthesised as an operand (the table does not rank these)",
			"the reference interpreter (internal/mt) is trusted to transcribe the statement",
		},
		quick: 120000, thorough: 1500000, minQuick: 15000, minThorough: 100000,
	}})
}

var c08Ops = []string{"or", "and", "==", "!=", "<", ">", "<=", ">=", "in", "not in", "starts with", "ends with", "matches", "+", "-", "~", "*", "/", "%", "^"}

// type codes
const (
	tInt = iota
	tStr
	tBool
	tIntList
)

// opSig returns admissible (left, right) operand types and the result type.
func opSigs(op string) [][3]int {
	switch op {
	case "or", "and":
		return [][3]int{{tBool, tBool, tBool}, {tInt, tBool, tBool}, {tBool, tInt, tBool}, {tStr, tBool, tBool}}
	case "==", "!=":
		return [][3]int{{tInt, tInt, tBool}, {tStr, tStr, tBool}}
	case "<", ">", "<=", ">=":
		return [][3]int{{tInt, tInt, tBool}}
	case "in", "not in":
		return [][3]int{{tInt, tIntList, tBool}, {tStr, tStr, tBool}}
	case "starts with", "ends with", "matches":
		return [][3]int{{tStr, tStr, tBool}}
	case "~":
		return [][3]int{{tStr, tStr, tStr}, {tInt, tStr, tStr}, {tStr, tInt, tStr}, {tInt, tInt, tStr}}
	default:
		return [][3]int{{tInt, tInt, tInt}}
	}
}

var c08IntAtoms = []mt.Expr{mt.I(12), mt.I(4), mt.I(2), mt.I(3), mt.I(1), mt.I(0), mt.I(6), mt.V("a"), mt.V("b"), mt.I(24), mt.I(5)}
var c08StrAtoms = []mt.Expr{mt.S("alpha"), mt.S("al"), mt.S("a"), mt.V("s"), mt.S("pha"), mt.S("x"), mt.S("alphaalpha")}
var c08BoolAtoms = []mt.Expr{mt.B(true), mt.B(false), mt.V("yes"), mt.V("no")}
var c08ListAtoms = []mt.Expr{mt.V("xs"), mt.Arr{Items: []mt.Expr{mt.I(1), mt.I(2), mt.I(12)}}}

func c08FixedCtx() map[string]mt.Val {
	return map[string]mt.Val{"a": int64(8), "b": int64(2), "s": "alpha", "yes": true, "no": false,
		"xs": []mt.Val{int64(1), int64(3), int64(4)}}
}

func atomOf(t int, r *core.Rand) mt.Expr {
	switch t {
	case tInt:
		return c08IntAtoms[r.Intn(len(c08IntAtoms))]
	case tStr:
		return c08StrAtoms[r.Intn(len(c08StrAtoms))]
	case tBool:
		return c08BoolAtoms[r.Intn(len(c08BoolAtoms))]
	}
	return c08ListAtoms[r.Intn(len(c08ListAtoms))]
}

// buildTyped builds a tree of the given shape over ops (shape: nested ints; see shapes3) with result type want (-1 = any).
type shape struct {
	leaf bool
	l, r *shape
}

var leafS = &shape{leaf: true}

func sh(l, r *shape) *shape { return &shape{l: l, r: r} }

var shapes2 = []*shape{sh(sh(leafS, leafS), leafS), sh(leafS, sh(leafS, leafS))}
var shapes3 = []*shape{
	sh(sh(sh(leafS, leafS), leafS), leafS),
	sh(sh(leafS, sh(leafS, leafS)), leafS),
	sh(sh(leafS, leafS), sh(leafS, leafS)),
	sh(leafS, sh(sh(leafS, leafS), leafS)),
	sh(leafS, sh(leafS, sh(leafS, leafS))),
}

// typed construction: ops are consumed in pre-order.
func buildTyped(s *shape, ops []string, pos *int, want int, r *core.Rand) (mt.Expr, bool) {
	if s.leaf {
		if want < 0 {
			want = tInt
		}
		return atomOf(want, r), true
	}
	op := ops[*pos]
	*pos++
	sigs := opSigs(op)
	// try signatures in a random rotation
	off := r.Intn(len(sigs))
	for k := 0; k < len(sigs); k++ {
		sg := sigs[(off+k)%len(sigs)]
		if want >= 0 && sg[2] != want {
			continue
		}
		save := *pos
		l, ok1 := buildTyped(s.l, ops, pos, sg[0], r)
		if !ok1 {
			*pos = save
			continue
		}
		rr, ok2 := buildTyped(s.r, ops, pos, sg[1], r)
		if !ok2 {
			*pos = save
			continue
		}
		return mt.Bin{Op: op, L: l, R: rr}, true
	}
	return nil, false
}

func countOps(e mt.Expr) int {
	switch x := e.(type) {
	case mt.Bin:
		return 1 + countOps(x.L) + countOps(x.R)
	case mt.Cond:
		return 1 + countOps(x.C) + countOps(x.A) + countOps(x.B)
	case mt.Un:
		return countOps(x.E)
	case mt.Paren:
		return countOps(x.E)
	case mt.Filt:
		n := countOps(x.E)
		for _, a := range x.Args {
			n += countOps(a)
		}
		return n
	case mt.Call:
		n := 0
		for _, a := range x.Args {
			n += countOps(a)
		}
		return n
	case mt.Arr:
		n := 0
		for _, a := range x.Items {
			n += countOps(a)
		}
		return n
	case mt.Attr:
		return countOps(x.E)
	case mt.Index:
		return countOps(x.E) + countOps(x.I)
	}
	return 0
}

// position templates -------------------------------------------------------

// observe wraps a typed expression so that its value becomes printable text.
func observe(e mt.Expr, typ int) mt.Expr {
	switch typ {
	case tBool:
		return mt.Cond{C: e, A: mt.S("T"), B: mt.S("F")}
	case tIntList:
		return mt.Filt{E: e, Name: "join", Args: []mt.Expr{mt.S(",")}}
	}
	return e
}

const c08Positions = 14

// buildPosition embeds e (of type typ) at syntactic position pos. It returns the template set.
func buildPosition(e mt.Expr, typ int, pos int) (*mt.TmplSet, string) {
	set := mt.NewSet()
	obsV := func(name string) mt.Expr { return observe(mt.V(name), typ) }
	switch pos {
	case 0: // print tag
		set.Add("main", []mt.Stmt{mt.T("<"), mt.P(observe(e, typ)), mt.T(">")})
	case 1: // if condition
		c := e
		switch typ {
		case tInt, tStr:
			// compare with itself printed through set to stay in-type: truthiness of the value
			c = e
		case tIntList:
			c = e
		}
		set.Add("main", []mt.Stmt{mt.If{Conds: []mt.Expr{c}, Bodies: [][]mt.Stmt{{mt.T("T")}}, Else: []mt.Stmt{mt.T("F")}, HasElse: true}})
	case 2: // elseif condition
		set.Add("main", []mt.Stmt{mt.If{Conds: []mt.Expr{mt.B(false), e}, Bodies: [][]mt.Stmt{{mt.T("0")}, {mt.T("T")}}, Else: []mt.Stmt{mt.T("F")}, HasElse: true}})
	case 3: // set
		set.Add("main", []mt.Stmt{mt.Set{Name: "r", E: e}, mt.T("["), mt.P(obsV("r")), mt.T("]")})
	case 4: // for sequence (array literal of E, or the list itself)
		seq := mt.Expr(mt.Arr{Items: []mt.Expr{e}})
		inner := obsV("it")
		if typ == tIntList {
			seq = e
			inner = mt.V("it")
		}
		set.Add("main", []mt.Stmt{mt.For{Val: "it", Seq: seq, Body: []mt.Stmt{mt.P(inner), mt.T(";")}}})
	case 5: // include variables
		set.Add("inc", []mt.Stmt{mt.T("("), mt.P(obsV("v")), mt.T(")")})
		set.Add("main", []mt.Stmt{mt.Include{E: mt.S("inc"), HasWith: true, WithKeys: []string{"v"}, WithVals: []mt.Expr{e}}})
	case 6: // filter argument
		set.Add("main", []mt.Stmt{mt.P(observe(mt.Filt{E: mt.V("undef_q"), Name: "default", Args: []mt.Expr{e}}, typ))})
	case 7: // function argument
		set.Add("main", []mt.Stmt{mt.P(observe(mt.Call{Name: "tick", Args: []mt.Expr{mt.I(900), e}}, typ))})
	case 8: // macro argument
		set.Add("main", []mt.Stmt{
			mt.Macro{Name: "show", Params: []string{"p"}, Body: []mt.Stmt{mt.T("<"), mt.P(obsV("p")), mt.T(">")}},
			mt.P(mt.MCall{Name: "show", Args: []mt.Expr{e}})})
	case 9: // array element
		set.Add("main", []mt.Stmt{mt.Set{Name: "arr", E: mt.Arr{Items: []mt.Expr{mt.I(0), e}}}, mt.P(observe(mt.Index{E: mt.V("arr"), I: mt.I(1)}, typ))})
	case 10: // hash value
		set.Add("main", []mt.Stmt{mt.Set{Name: "h", E: mt.Hash{Keys: []string{"k"}, Vals: []mt.Expr{e}}}, mt.P(observe(mt.Attr{E: mt.V("h"), Name: "k"}, typ))})
	case 11: // macro default
		set.Add("main", []mt.Stmt{
			mt.Macro{Name: "dflt", Params: []string{"p"}, Defaults: map[string]mt.Expr{"p": e}, Body: []mt.Stmt{mt.P(obsV("p"))}},
			mt.P(mt.MCall{Name: "dflt"})})
	case 12: // conditional operator branch
		set.Add("main", []mt.Stmt{mt.P(observe(mt.Cond{C: mt.B(true), A: e, B: e}, typ))})
	case 13: // inside a block of a child template (inherited layout)
		set.Add("base", []mt.Stmt{mt.T("B:"), mt.Block{Name: "c", Body: []mt.Stmt{mt.T("dflt")}}})
		set.Add("main", []mt.Stmt{mt.Extends{E: mt.S("base")}, mt.Block{Name: "c", Body: []mt.Stmt{mt.P(observe(e, typ))}}})
	}
	return set, "main"
}

func exprType(g *ExprGen, e mt.Expr) int {
	v, _, _ := g.Eval(e)
	switch v.(type) {
	case bool:
		return tBool
	case string:
		return tStr
	case []mt.Val:
		return tIntList
	}
	return tInt
}

// runModel renders the set with the engine for one printing and compares with the reference.
func c08Check(rec *core.Recorder, class string, set *mt.TmplSet, main string, ctx map[string]mt.Val, pr *mt.Printer, label string) {
	in := mt.NewInterp(set)
	want, werr := in.Render(main, ctx)
	if werr != nil {
		if ErrIsUndefined(werr) {
			rec.Count("skipped-undefined", 1)
			return
		}
	}
	srcs := maybeLarge(rec, pr.SourceSet(set))
	tk := &Ticker{}
	res := renderFresh(srcs, main, ctxToGo(ctx), func(e *twig.Engine) { e.AddFunction("tick", tk.Fn) })
	canon := canonSrcs(srcs) + canonCtx(ctx)
	rec.Count("renders", 1)
	if werr != nil {
		// expected failure (not produced by C08 generators)
		if res.Err == nil && !res.Panicked {
			rec.Violate("reference-model", core.SigHash("c08-exp-err", canon), "expected an error, engine returned output "+core.Q(res.Out), caseDump(srcs, main, ctx, map[string]any{"printing": label}), "")
		}
		return
	}
	if res.Panicked {
		rec.Violate("panic", "panic@"+res.Site, "engine panicked on a defined expression: "+res.PanicVal, caseDump(srcs, main, ctx, map[string]any{"printing": label, "expected": want}), res.Stack)
		return
	}
	if res.Err != nil || res.Out != want {
		rec.Violate("reference-model", core.SigHash("c08-value", canon),
			fmt.Sprintf("%s printing: engine gave %s (err=%v), reference value %s; source %s", label, core.Q(core.Trunc(res.Out, 200)), res.Err, core.Q(core.Trunc(want, 200)), core.Q(core.Trunc(srcs[main], 400))),
			caseDump(srcs, main, ctx, map[string]any{"printing": label, "expected": want, "got": res.Out, "err": res.ErrStr()}), "")
		return
	}
	if fmtTicks(tk.IDs) != fmtTicks(in.Ticks) {
		rec.Violate("tick-trace", core.SigHash("c08-trace", canon),
			fmt.Sprintf("evaluation trace differs: engine evaluated %s, statement requires %s; source %s", fmtTicks(tk.IDs), fmtTicks(in.Ticks), core.Q(core.Trunc(srcs[main], 400))),
			caseDump(srcs, main, ctx, map[string]any{"printing": label, "expectedTicks": in.Ticks, "gotTicks": tk.IDs}), "")
		return
	}
	if len(in.Ticks) > 0 {
		rec.Count("tick-traces-compared", 1)
	}
	if rec.WantSample(class) {
		rec.Sample(class, map[string]any{"templates": srcs, "context": canonCtx(ctx), "output": want, "ticks": in.Ticks, "printing": label})
	}
}

// runTree checks one tree at one position under the three printings.
func (p *c08) runTree(rec *core.Recorder, class string, r *core.Rand, e mt.Expr, typ int, ctx map[string]mt.Val, pos int) {
	set, main := buildPosition(e, typ, pos)
	minP := &mt.Printer{Mode: mt.ParenMinimal}
	srcs := minP.SourceSet(set)
	rec.Eval(class, canonSrcs(srcs)+canonCtx(ctx), countOps(e) >= 2)
	rec.Count(fmt.Sprintf("position:%d", pos), 1)
	c08Check(rec, class, set, main, ctx, minP, "minimal")
	c08Check(rec, class, set, main, ctx, &mt.Printer{Mode: mt.ParenFull}, "full")
	c08Check(rec, class, set, main, ctx, &mt.Printer{Mode: mt.ParenRandom, R: r.Fork()}, "random-superset")
	if r.P(1, 3) {
		c08Check(rec, class, set, main, ctx, &mt.Printer{Mode: mt.ParenMinimal, Tight: true}, "minimal-tight")
	}
	if r.P(1, 3) {
		c08Check(rec, class, set, main, ctx, &mt.Printer{Mode: mt.ParenRandom, R: r.Fork(), WideSpace: true}, "wide-spacing")
	}
}

type c08Reg struct {
	name string
	e    mt.Expr
	typ  int
}

func c08Regress() []c08Reg {
	a, b := mt.V("a"), mt.V("b")
	x := mt.V("yes")
	return []c08Reg{
		{"1+2*3*4", mt.Op("+", mt.I(1), mt.Op("*", mt.Op("*", mt.I(2), mt.I(3)), mt.I(4))), tInt},
		{"1+2<4 and 2*2==4", mt.Op("and", mt.Op("<", mt.Op("+", mt.I(1), mt.I(2)), mt.I(4)), mt.Op("==", mt.Op("*", mt.I(2), mt.I(2)), mt.I(4))), tBool},
		{"(-a+b)", mt.Paren{E: mt.Op("+", mt.Un{Op: "-", E: a}, b)}, tInt},
		{"literal 4", mt.I(4), tInt},
		{"a and b", mt.Op("and", a, b), tBool},
		{"x ? 1 : 2", mt.Cond{C: x, A: mt.I(1), B: mt.I(2)}, tInt},
		{"not t", mt.Un{Op: "not", E: x}, tBool},
		{"a-b-2", mt.Op("-", mt.Op("-", a, b), mt.I(2)), tInt},
		{"a-(b-2)", mt.Op("-", a, mt.Op("-", b, mt.I(2))), tInt},
		{"2^3^2", mt.Op("^", mt.Op("^", mt.I(2), mt.I(3)), mt.I(2)), tInt},
		{"a*b+a*b", mt.Op("+", mt.Op("*", a, b), mt.Op("*", a, b)), tInt},
		{"a or b and no", mt.Op("or", mt.V("no"), mt.Op("and", x, mt.V("no"))), tBool},
		{"s ~ a + b", mt.Op("~", mt.V("s"), mt.Op("+", a, b)), tStr},
		{"a + b ~ s", mt.Op("~", mt.Op("+", a, b), mt.V("s")), tStr},
		{"zz is defined", mt.IsDef{Name: "zz"}, tBool},
		{"a is defined", mt.IsDef{Name: "a"}, tBool},
		{"0*-3", mt.Op("*", mt.I(0), mt.I(-3)), tInt},
		{"-(0)", mt.Un{Op: "-", E: mt.I(0)}, tInt},
		{"(m).k", mt.Attr{E: mt.Paren{E: mt.V("mm")}, Name: "k"}, tInt},
		{"2^53 edge", mt.Op("-", mt.Op("^", mt.I(2), mt.I(53)), mt.I(1)), tInt},
		{"a % b * 3", mt.Op("*", mt.Op("%", a, b), mt.I(3)), tInt},
		{"12 / 4 / 3", mt.Op("/", mt.Op("/", mt.I(12), mt.I(4)), mt.I(3)), tInt},
		{"a in xs and b in xs", mt.Op("and", mt.Op("in", mt.I(3), mt.V("xs")), mt.Op("not in", b, mt.V("xs"))), tBool},
		{"'al' ~ 'pha' == s", mt.Op("==", mt.Op("~", mt.S("al"), mt.S("pha")), mt.V("s")), tBool},
	}
}

func (p *c08) Run(rec *core.Recorder, seed uint64, idx int, tier string) {
	r := core.NewRand("C08", seed, idx)
	reg := c08Regress()
	nReg := len(reg) * c08Positions
	if idx < nReg {
		c := reg[idx/c08Positions]
		ctx := c08FixedCtx()
		ctx["mm"] = map[string]mt.Val{"k": int64(7)}
		p.runTree(rec, "regress", r, c.e, c.typ, ctx, idx%c08Positions)
		return
	}
	idx -= nReg
	nPairs := len(c08Ops) * len(c08Ops) * 2
	if idx < nPairs {
		ops := []string{c08Ops[idx/2/len(c08Ops)], c08Ops[idx/2%len(c08Ops)]}
		p.runShape(rec, "pairs", r, shapes2[idx%2], ops)
		return
	}
	idx -= nPairs
	nTriples := len(c08Ops) * len(c08Ops) * len(c08Ops) * 5
	budget := 1500
	if tier == "thorough" {
		budget = nTriples
	}
	if idx < budget {
		k := idx
		if tier != "thorough" {
			// stratified sample: stride through the full enumeration, offset by the seed
			k = int((uint64(idx)*uint64(nTriples/budget) + seed*7919) % uint64(nTriples))
		}
		n := len(c08Ops)
		ops := []string{c08Ops[k/5/n/n%n], c08Ops[k/5/n%n], c08Ops[k/5%n]}
		p.runShape(rec, "triples", r, shapes3[k%5], ops)
		return
	}
	// random trees
	sc := NewScope(r.Fork())
	g := NewExprGen(r.Fork(), sc, r.P(2, 3))
	depth := r.Range(2, 4)
	var e mt.Expr
	typ := tInt
	switch r.Intn(7) {
	case 0, 1, 2:
		e = g.Int(depth)
	case 3:
		e, typ = g.Str(depth), tStr
	case 4, 5:
		e, typ = g.Bool(depth), tBool
	default:
		e, typ = g.IntList(depth-1), tIntList
	}
	pos := r.Intn(c08Positions)
	if typ == tIntList && (pos == 1 || pos == 2) {
		pos = 4
	}
	p.runTree(rec, "random", r, e, typ, sc.Ctx, pos)
}

func (p *c08) runShape(rec *core.Recorder, class string, r *core.Rand, s *shape, ops []string) {
	ctx := c08FixedCtx()
	sc := &Scope{Ctx: ctx}
	g := NewExprGen(r, sc, false)
	for tries := 0; tries < 40; tries++ {
		pos := 0
		e, ok := buildTyped(s, ops, &pos, -1, r)
		if !ok {
			// try with any result type
			pos = 0
			for _, want := range []int{tBool, tStr, tInt} {
				pos = 0
				if e, ok = buildTyped(s, ops, &pos, want, r); ok {
					break
				}
			}
		}
		if !ok {
			rec.Count("shape-untypable", 1)
			return
		}
		if !g.defined(e) {
			continue
		}
		typ := exprType(g, e)
		position := []int{0, 1, 3}[r.Intn(3)]
		if typ == tIntList {
			position = 0
		}
		p.runTree(rec, class, r, e, typ, ctx, position)
		rec.Count("shape:"+strings.Join(ops, "|"), 0)
		return
	}
	rec.Count("shape-no-defined-operands", 1)
}
