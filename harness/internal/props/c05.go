package props

import (
	"bytes"
	"encoding/binary"
	"fmt"
	"io"
	"math"
	"os"
	"regexp"
	"strings"
	"sync"
	"time"

	"github.com/semihalev/twig"

	"verifharness/internal/core"
	"verifharness/internal/mt"
)

// C05 — no template source or context value makes the engine panic or hang.
type c05 struct{ base }

func init() {
	Register(&c05{base{
		id: "C05", level: "exploration",
		technique: "crash/hang sanitizer: recover() + process-exit watch + per-case watchdog + canary render, over mutated valid programs, a value-shape x construct grid and malformed compiled blobs, in isolated child processes",
		rule: "case = (a) one Go value shape x one template construct (attribute, index, every built-in filter with 0-2 arguments, loop, test, operator, function), (b) a truncation / single-byte deletion / token- or byte-level mutation / splice of a valid program, (c) a pathological shape, (d) a malformed compiled-template blob. " +
			"Each call runs under recover(); afterwards a canary template is parsed and rendered on the same engine and must give its known output. Non-trivial: every case (each is a distinct input). Distinct = distinct input bytes / (value, construct) pair.",
		assumptions: []string{
			"excluded by the statement: unconditional self-recursion (sources in which a macro body mentions a macro name or _self are skipped and counted; mutated templates cannot name themselves) and panics from user callbacks (harness callbacks never panic)",
			"digit runs are capped (2 digits inside range(), 4 elsewhere): being asked for 10^12 loop iterations is resource exhaustion by request, not a hang",
			"cyclic Go values are not generated; allocation size requested by length prefixes is recorded but is not a verdict",
			"a per-case watchdog of 20 s (confirmed alone with 60 s) decides 'fails to terminate'",
		},
		quick: 1200000, thorough: 9000000, minQuick: 100000, minThorough: 2000000,
	}})
}

func (p *c05) HangIsViolation() bool          { return true }
func (p *c05) Shards(tier string) int         { return 16 }
func (p *c05) CaseTimeoutSec(tier string) int { return 20 }
func (p *c05) RequiredCounters(string) []string {
	return []string{"canary-runs", "class:value-grid", "class:pair-grid", "class:mutation", "class:blob"}
}

// ---- value shapes

type c05Plain struct {
	Name string
	N    int
	F    float64
	L    []int
	M    map[string]int
	p    int
}
type c05Inner struct{ Deep string }
type c05Emb struct {
	c05Inner
	Top string
}
type c05PtrEmb struct {
	*c05Inner
	Top string
}
type c05Meth struct{ V int }

func (m c05Meth) Val() int               { return m.V }
func (m *c05Meth) Ptr() string           { return "ptr" }
func (m c05Meth) WithArg(a int) int      { return a }
func (m c05Meth) Two() (int, error)      { return 1, nil }
func (m c05Meth) String() string         { return "meth" }
func (m c05Meth) NilResult() interface{} { return nil }
func (m c05Meth) Nothing()               {}

type c05ErrVal struct{ msg string }

func (e c05ErrVal) Error() string { return e.msg }

type c05HasNilStringer struct {
	T *time.Time
	M *c05Meth
}

// a struct with a non-nil pointer next to unexported fields whose types print themselves
type c05Lease struct {
	Name  string
	Owner *c05Plain
	ttl   time.Duration
	at    time.Time
	m     c05Meth
}

// values that contain themselves
type c05Node struct {
	Name       string
	Prev, Next *c05Node
	Kids       []*c05Node
}

func c05Ring() *c05Node {
	a, b, c := &c05Node{Name: "a"}, &c05Node{Name: "b"}, &c05Node{Name: "c"}
	a.Next, b.Next, c.Next = b, c, a
	a.Prev, b.Prev, c.Prev = c, a, b
	a.Kids, b.Kids, c.Kids = []*c05Node{b, c}, []*c05Node{a, c}, []*c05Node{a, b}
	return a
}
func c05SelfMap() map[string]interface{} {
	m := map[string]interface{}{"k": 1}
	m["self"], m["again"] = m, m
	return m
}
func c05SelfSlice() []interface{} {
	s := []interface{}{1, nil, nil}
	s[1], s[2] = s, s
	return s
}

// methods promoted from an embedded pointer or interface that is nil: calling them panics inside Go's own wrapper
type c05NilPtrMeth struct {
	*c05Meth
	X int
}
type c05NilIfaceMeth struct {
	fmt.Stringer
	X int
}
type c05Boxed struct{ V interface{} }
type c05Cents int64
type c05Ratio float64

func c05SelfIface() interface{} {
	var p interface{}
	p = &p
	return p
}

type c05MethPtr *c05Meth
type c05Self *c05Self

func c05SelfPtr() c05Self {
	var p c05Self
	p = c05Self(&p)
	return p
}

type c05Str string
type c05IntSlice []int
type c05StrMap map[string]string

type namedVal struct {
	Name string
	V    interface{}
}

// lists above the engine's "large collection" thresholds (50 elements), with and without unhashable elements
func c05BigList(nested bool) []interface{} {
	out := []interface{}{}
	for i := 0; i < 60; i++ {
		out = append(out, i)
	}
	if nested {
		out = append(out, []interface{}{1, 2}, map[string]interface{}{"k": 1}, "s", nil, 2.5)
	}
	return out
}
func c05BigInts() []int {
	out := make([]int, 70)
	for i := range out {
		out[i] = 70 - i
	}
	return out
}

type c05Plain2 struct{ A int }

// methods with two results of which the second is not an error
type c05Comma struct{ N int }

func (c c05Comma) Discount() (float64, bool)    { return 0.5, true }
func (c c05Comma) First() (string, int)         { return "f", c.N }
func (c *c05Comma) Deadline() (time.Time, bool) { return time.Time{}, false }
func (c c05Comma) Pair() (c05Plain2, c05Plain2) { return c05Plain2{1}, c05Plain2{2} }
func (c c05Comma) Three() (int, string, error)  { return 1, "s", nil }
func (c c05Comma) NilErr() (string, error)      { return "ok", nil }

// a list that contains itself, wrapped in n more lists
func c05DeepSelf(n int) interface{} {
	inner := []interface{}{nil, "x"}
	inner[0] = inner
	var v interface{} = inner
	for i := 0; i < n; i++ {
		v = []interface{}{v}
	}
	return v
}

// more than 50 records of a comparable struct type whose interface field holds something that is not comparable
func c05BoxedRecords(asIface bool) interface{} {
	typed := make([]c05Boxed, 60)
	generic := make([]interface{}, 60)
	for i := range typed {
		switch i % 3 {
		case 0:
			typed[i] = c05Boxed{V: map[string]interface{}{"i": i}}
		case 1:
			typed[i] = c05Boxed{V: []string{"x"}}
		default:
			typed[i] = c05Boxed{V: i}
		}
		generic[i] = typed[i]
	}
	if asIface {
		return generic
	}
	return typed
}

func c05BigLists() [][]int {
	out := make([][]int, 55)
	for i := range out {
		out[i] = []int{i}
	}
	return out
}

func c05Values() []namedVal {
	var nilPtr *c05Plain
	var nilSlice []string
	var nilMap map[string]interface{}
	var nilIface interface{} = nilPtr
	one := 1
	pone := &one
	str := "ptrstr"
	deep := interface{}("leaf")
	for i := 0; i < 60; i++ {
		if i%2 == 0 {
			deep = []interface{}{deep}
		} else {
			deep = map[string]interface{}{"k": deep}
		}
	}
	ch := make(chan int)
	return []namedVal{
		{"nil", nil}, {"true", true}, {"false", false}, {"int0", 0}, {"int-1", -1}, {"intbig", math.MaxInt64}, {"intmin", math.MinInt64},
		{"int8", int8(-5)}, {"uint64max", uint64(math.MaxUint64)}, {"uintptr", uintptr(7)},
		{"float", 3.25}, {"nan", math.NaN()}, {"inf", math.Inf(1)}, {"-inf", math.Inf(-1)}, {"negzero", math.Copysign(0, -1)}, {"float32", float32(1.5)}, {"hugefloat", 1e308},
		{"complex", complex(1, 2)},
		{"str-empty", ""}, {"str", "hello"}, {"str-mb", "héllo wörld 日本"}, {"str-invalid", "a\xffb\xc3"}, {"str-num", "42"}, {"str-float", "1e3"}, {"str-neg", "-7"}, {"str-nul", "a\x00b"},
		{"str-html", "<a href='x'>&\"</a>"}, {"str-long", strings.Repeat("xy", 3000)}, {"named-str", c05Str("named")},
		{"bytes", []byte("bytes")}, {"list-empty", []interface{}{}}, {"list", []interface{}{1, "a", nil, 2.5, true}}, {"list-nested", []interface{}{[]interface{}{1, 2}, map[string]interface{}{"a": 1}}},
		{"strs", []string{"b", "a", "c"}}, {"ints", []int{3, 1, 2}}, {"floats", []float64{2.5, 1.5}}, {"array", [3]int{1, 2, 3}}, {"named-ints", c05IntSlice{5, 4}},
		{"nil-slice", nilSlice}, {"ptr-ints", []*int{pone, nil}},
		{"map-empty", map[string]interface{}{}}, {"map", map[string]interface{}{"a": 1, "b": "x", "c": nil, "d": []interface{}{1}}},
		{"map-str", map[string]string{"k": "v", "x": "y"}}, {"map-int", map[int]string{1: "one", 2: "two"}}, {"map-iface", map[interface{}]interface{}{"a": 1, 2: "b"}},
		{"map-named", c05StrMap{"n": "m"}}, {"nil-map", nilMap}, {"map-struct", map[string]c05Plain{"s": {Name: "in"}}}, {"map-bool", map[bool]int{true: 1}},
		{"struct", c05Plain{Name: "n", N: 3, L: []int{1}, M: map[string]int{"a": 1}}}, {"ptr-struct", &c05Plain{Name: "pn"}}, {"nil-ptr", nilPtr}, {"nil-in-iface", nilIface},
		{"emb", c05Emb{c05Inner{"deep"}, "top"}}, {"ptr-emb", c05PtrEmb{&c05Inner{"pdeep"}, "top"}}, {"nil-emb", c05PtrEmb{nil, "top"}}, {"ptr-nil-emb", &c05PtrEmb{nil, "t"}},
		{"meth", c05Meth{V: 9}}, {"ptr-meth", &c05Meth{V: 8}}, {"ptr-int", pone}, {"ptr-str", &str}, {"ptr-ptr", &pone},
		{"time", time.Unix(1700000000, 0).UTC()}, {"zero-time", time.Time{}}, {"duration", 90 * time.Second},
		{"list-big-nested", c05BigList(true)}, {"list-big", c05BigList(false)}, {"ints-big", c05BigInts()}, {"lists-big", c05BigLists()},
		{"nil-time-ptr", (*time.Time)(nil)}, {"nil-stringer-ptr", (*c05Meth)(nil)}, {"nil-err-ptr", (*c05ErrVal)(nil)}, {"map-nan-key", map[float64]string{math.NaN(): "x", 1.5: "y"}}, {"map-iface-nan", map[interface{}]interface{}{math.NaN(): 1}},
		{"stringer-nil-field", c05HasNilStringer{}}, {"list-nil-stringers", []interface{}{(*time.Time)(nil), (*c05Meth)(nil)}},
		{"ptr-and-hidden-stringers", c05Lease{Name: "l", Owner: &c05Plain{Name: "o"}, ttl: 90 * time.Second, at: time.Unix(1700000000, 0).UTC(), m: c05Meth{V: 1}}},
		{"list-ptr-hidden-stringers", []*c05Lease{{Name: "a", ttl: time.Second}, nil, {Name: "b", Owner: &c05Plain{}}}}, {"map-ptr-hidden-stringers", map[string]*c05Lease{"k": {Name: "a", ttl: time.Second, Owner: &c05Plain{}}}},
		{"cyclic-list", c05Ring()}, {"cyclic-in-list", []interface{}{c05Ring()}}, {"self-map", c05SelfMap()}, {"self-slice", c05SelfSlice()}, {"cyclic-in-map", map[string]interface{}{"p": c05Ring()}},
		{"nil-embedded-ptr-methods", c05NilPtrMeth{X: 1}}, {"nil-embedded-iface-methods", c05NilIfaceMeth{X: 2}}, {"ptr-nil-embedded-iface", &c05NilIfaceMeth{X: 3}},
		{"uint16", uint16(9)}, {"hugefloat19", 1e19}, {"str-nan", "nan"}, {"str-inf", "-Infinity"},
		{"uncomparable-inside", c05Boxed{V: []int{1}}}, {"uncomparable-inside-ptr", &c05Boxed{V: map[string]int{"a": 1}}}, {"self-pointing-iface", c05SelfIface()}, {"map-stringer-keys", map[fmt.Stringer]string{c05Meth{V: 1}: "x"}},
		{"ptr-to-list", &[]interface{}{1, "a"}}, {"ptr-to-map", &map[string]interface{}{"k": 1}}, {"ptr-to-str", func() *string { s := "héllo"; return &s }()}, {"ptr-to-ptr-list", func() **[]int { l := &[]int{3, 1}; return &l }()},
		{"named-int", c05Cents(-1234)}, {"named-float", c05Ratio(-2.25)},
		{"re-slash", "/"}, {"re-mods-unclosed", "/sim"}, {"re-flag-only", "/i"}, {"re-full", "/^h.l+o$/ims"}, {"re-broken", "/(/u"}, {"fmt-verbs", "%d %s %v %[3]d %*d %!"},
		{"intbig-1", math.MaxInt64 - 1}, {"intmin+1", math.MinInt64 + 1},
		{"comma-ok-methods", c05Comma{N: 3}}, {"ptr-comma-ok-methods", &c05Comma{N: 4}},
		{"self-slice-deep", c05DeepSelf(40)}, {"self-slice-deeper", c05DeepSelf(300)}, {"map-iface-nan-keys", map[interface{}]string{math.NaN(): "a", math.NaN(): "b", "k": "c"}},
		{"float-small", 0.25}, {"float-neg-small", -0.5}, {"float32-small", float32(0.125)}, {"str-frac", "0.3"}, {"float-tiny", 1e-300}, {"float-just-below-one", 0.9999999999999999},
		{"map-array-keys", map[[2]int]string{{1, 2}: "x", {3, 1}: "y"}}, {"short-ints", []int{1}}, {"map-struct-keys", map[c05Plain2]int{{A: 1}: 1}}, {"array2", [2]int{1, 2}},
		{"boxed-records-big", c05BoxedRecords(false)}, {"boxed-records-big-iface", c05BoxedRecords(true)}, {"boxed-record", c05Boxed{V: map[string]interface{}{"k": 1}}}, {"boxed-array", [2]c05Boxed{{V: []int{1}}, {V: 2}}},
		{"trail-backslash", "Y-m-d\\"}, {"backslash", "\\"}, {"date-letters", "D, d M Y H:i:s \\a\\t e T P U u v N S z t L o W c r B I O"}, {"trail-percent", "50%"}, {"trail-brace", "a{"},
		{"self-ptr", c05SelfPtr()}, {"nil-callable", (func(io.Writer) error)(nil)}, {"named-ptr-meth", c05MethPtr(&c05Meth{V: 4})}, {"float32-huge", float32(1e21)},
		{"chan", ch}, {"func", func() int { return 1 }}, {"deep", deep}, {"err", fmt.Errorf("an error value")}, {"struct-empty", struct{}{}},
	}
}

var c05Filters = []string{"default", "escape", "e", "upper", "lower", "trim", "raw", "length", "count", "join", "split", "date", "url_encode", "capitalize", "title",
	"first", "last", "slice", "reverse", "sort", "keys", "merge", "replace", "striptags", "number_format", "abs", "round", "nl2br", "format", "json_encode", "spaceless"}

var c05ArgSets = []string{"", "(1)", "(-2)", "('x')", "('')", "(1, 2)", "(-1, -1)", "('a', 'b')", "(w)", "(null)", "([1, 2])", "({'k': 1})", "(0, 100)", "(2, 'ceil')", "('%s %d', 1)", "(1.5)", "(nope)", "(v)", "(v, v)", "(3, v)"}

var c05Constructs = []string{
	"{{ v }}", "{{ v.x }}", "{{ v.Name }}", "{{ v.Deep }}", "{{ v.Val }}", "{{ v.Ptr }}", "{{ v.WithArg }}", "{{ v.Two }}", "{{ v.Nothing }}", "{{ v.NilResult }}", "{{ v.p }}", "{{ v.a.b.c }}", "{{ v.Top }}",
	"{{ v['x'] }}", "{{ v[0] }}", "{{ v[-1] }}", "{{ v[99] }}", "{{ v[nope] }}", "{{ v[w] }}", "{{ v[v] }}", "{{ v[1.5] }}", "{{ v['1'] }}", "{{ v[true] }}", "{{ v[null] }}", "{{ v[[1]] }}", "{{ v[0][0] }}", "{{ v.k.k }}", "{{ w[v] }}", "{{ [1, 2][v] }}", "{{ {'a': 1}[v] }}",
	"{% for a in v %}[{{ a }}]{% else %}E{% endfor %}", "{% for k, a in v %}{{ k }}={{ a }};{% endfor %}", "{% for a in v %}{{ loop.index }}{{ loop.last }}{% for b in a %}{{ b }}{% endfor %}{% endfor %}",
	"{% if v %}T{% else %}F{% endif %}", "{{ v ? 'T' : 'F' }}", "{{ not v }}", "{{ -v }}", "{{ +v }}",
	"{{ v + 1 }}", "{{ 1 - v }}", "{{ v * v }}", "{{ v / 2 }}", "{{ 2 / v }}", "{{ v % 3 }}", "{{ 3 % v }}", "{{ v ^ 2 }}", "{{ 2 ^ v }}", "{{ v ~ v }}", "{{ v == v }}", "{{ v != 1 }}", "{{ v < 1 }}", "{{ v >= w }}",
	"{{ v in v }}", "{{ 1 in v }}", "{{ 'a' in v }}", "{{ v in [1, 'a'] }}", "{{ v in 'abc' }}", "{{ v not in w }}", "{{ v matches '/a/' }}", "{{ 'a' matches v }}", "{{ v starts with 'a' }}", "{{ 'a' ends with v }}", "{{ v and w }}", "{{ v or w }}",
	"{{ v is defined }}", "{{ v.x is defined }}", "{{ v is empty }}", "{{ v is null }}", "{{ v is even }}", "{{ v is odd }}", "{{ v is iterable }}", "{{ v is divisible_by(2) }}", "{{ 4 is divisible_by(v) }}", "{{ v is same_as(v) }}", "{{ v is equalto(1) }}", "{{ v is starts_with('a') }}", "{{ v is matches('a') }}", "{{ v is nosuchtest }}",
	"{{ max(v) }}", "{{ min(v, 1) }}", "{{ max(v, v) }}", "{{ range(v, 3) }}", "{{ range(0, v) }}", "{{ range(0, 3, v) }}", "{{ range(v) }}", "{{ length(v) }}", "{{ cycle(v, 1) }}", "{{ cycle([1, 2], v) }}", "{{ random(v) }}", "{{ date(v) }}", "{{ date(v, v) }}", "{{ dump(v) }}", "{{ merge(v, v) }}", "{{ merge(v, [1]) }}", "{{ json_encode(v) }}", "{{ constant(v) }}", "{{ include(v) }}", "{{ parent() }}", "{{ v() }}", "{{ v.x() }}", "{{ v.Val() }}", "{{ v.WithArg(1) }}", "{{ v.Ptr }}|{{ v.Val }}|{{ v.V }}", "{{ v.Ptr() }}", "{{ v.Discount }}|{{ v.First }}|{{ v.Deadline }}|{{ v.Pair }}|{{ v.Three }}|{{ v.NilErr }}|{{ v.Two }}", "{% if v.Discount > 0.1 %}y{% endif %}{{ v.First is defined ? 1 : 0 }}{{ v.Deadline|date('Y') }}",
	"{% set q = v %}{{ q }}{% set v = 1 %}{{ v }}", "{% do v %}", "{% include v %}", "{% include v ignore missing %}", "{% include 'nope' ignore missing with v %}", "{% include 'canary_inc' with {'a': v} only %}", "{% extends v %}", "{% import v as z %}", "{% from v import z %}",
	"{% apply upper %}{{ v }}{% endapply %}", "{% spaceless %}<a> {{ v }} </a>{% endspaceless %}", "{% macro mm(a, b = v) %}{{ a }}{{ b }}{% endmacro %}{{ mm(v) }}{{ mm() }}{{ mm(v, v, v) }}",
	"{{ [v, v]|join(',') }}", "{{ {'k': v}|keys|join }}", "{{ {'k': v}.k }}", "{{ [v]|first }}", "{{ v|default(v)|upper|length }}", "{{ v|first|last|first }}", "{{ v|keys|sort|reverse|join('-') }}", "{{ v|merge(w)|sort|join }}", "{{ w|merge(v)|length }}", "{{ v|slice(1)|slice(-1)|length }}",
}

var c05PairConstructs = []string{
	"{{ v in w }}", "{{ v not in w }}", "{{ w[v] }}", "{{ v == w }}{{ v != w }}", "{{ v < w }}{{ v >= w }}", "{{ v ~ w }}", "{{ v + w }}{{ v - w }}{{ v * w }}", "{{ v / w }}{{ v % w }}", "{{ merge(v, w)|length }}", "{{ v|merge(w)|length }}",
	"{{ v|default(w) }}", "{{ v|join(w) }}", "{{ v|split(w)|length }}", "{{ v|replace(w) }}", "{{ v|slice(w, w) }}", "{{ v|date(w) }}", "{{ v|number_format(w, w, w) }}", "{{ v|round(w) }}", "{{ max(v, w) }}{{ min(w, v) }}", "{{ range(v, w)|length }}", "{{ random(v, w) }}{{ random(v) }}",
	"{{ v is same as(w) }}", "{{ v is divisible by(w) }}", "{{ cycle(v, w) }}", "{% include v with w %}", "{{ v|format(w) }}", "{{ v matches w }}", "{{ v starts with w }}{{ v ends with w }}", "{{ v and w }}{{ v or w }}{{ v ? w : v }}",
	"{% for k, x in v %}{{ x in w }}{% endfor %}", "{% if v in w %}y{% endif %}{% for x in w %}{% if x in v %}z{% endif %}{% endfor %}",
}

const c05Canary = "{% macro cm(x) %}<{{ x }}>{% endmacro %}{% for i in [1, 2] %}{{ i }}{% endfor %}{{ cm('c') }}{{ s.Name }}|{{ 'ok'|upper }}|{% include 'canary_inc' %}"
const c05CanaryWant = "12<c>n|OK|INC"

func c05NewEngine(extra map[string]string) *twig.Engine {
	e := twig.New()
	m := map[string]string{"canary_inc": "INC"}
	for k, v := range extra {
		m[k] = v
	}
	e.RegisterLoader(twig.NewArrayLoader(m))
	return e
}

// canary: the engine must still work after a case.
func c05CanaryCheck(rec *core.Recorder, e *twig.Engine, what string, cs any) {
	rec.Count("canary-runs", 1)
	var out string
	var err error
	panicked, site, val, stack := core.Guard(func() {
		var t *twig.Template
		t, err = e.ParseTemplate(c05Canary)
		if err == nil {
			out, err = t.Render(map[string]interface{}{"s": c05Plain{Name: "n"}})
		}
	})
	if panicked {
		rec.Violate("canary", "canary-panic@"+site, "engine unusable after "+what+": canary render panicked: "+val, cs, stack)
		return
	}
	if err != nil || out != c05CanaryWant {
		rec.Violate("canary", "canary-wrong", fmt.Sprintf("engine unusable after %s: canary gave %q err=%v, want %q", what, out, err, c05CanaryWant), cs, "")
	}
}

func c05Guarded(rec *core.Recorder, class, what string, cs any, f func()) bool {
	panicked, site, val, stack := core.Guard(f)
	if panicked {
		rec.Count("panics", 1)
		rec.Violate("panic", "panic@"+site, what+" panicked: "+core.Trunc(val, 200), cs, stack)
		return false
	}
	return true
}

// c05Pad pushes a source over the 4096-byte threshold at which the engine switches to its second (large-template) tokenizer.
var c05Pad = strings.Repeat("pad ", 1030)

// parse+render one source with one context; the same source is then exercised again on the large-template tokenizer path
// (padded with plain text before or after it), except for the value grid where the construct, not the tokenizer, is the subject.
func c05Exercise(rec *core.Recorder, class string, e *twig.Engine, src string, ctx map[string]interface{}, cs any) {
	c05ExerciseOne(rec, class, e, src, ctx, cs)
	if class == "value-grid" && core.Hash64(src)%8 != 0 || len(src) > 4096 {
		return
	}
	rec.Count("large-tokenizer-path", 1)
	padded := c05Pad + src
	if core.Hash64(src, "side")%2 == 0 {
		padded = src + c05Pad
	}
	c05ExerciseOne(rec, class, e, padded, ctx, map[string]any{"padded": padded, "unpadded-case": cs})
}

func c05ExerciseOne(rec *core.Recorder, class string, e *twig.Engine, src string, ctx map[string]interface{}, cs any) {
	var t *twig.Template
	var err error
	if !c05Guarded(rec, class, "ParseTemplate", cs, func() { t, err = e.ParseTemplate(src) }) {
		return
	}
	if err != nil {
		rec.Count("parse-errors", 1)
		return
	}
	rec.Count("parsed-ok", 1)
	c05Guarded(rec, class, "Template.Render", cs, func() {
		_, rerr := t.Render(ctx)
		if rerr != nil {
			rec.Count("render-errors", 1)
		} else {
			rec.Count("rendered-ok", 1)
		}
	})
	if core.Hash64(src)%3 == 0 || os.Getenv("VERIF_ALLPATHS") != "" {
		// the registered path and the writer path (chosen by the source, not by the run's history, so that a replay takes the same path)
		c05Guarded(rec, class, "RegisterString+RenderTo", cs, func() {
			if e.RegisterString("case_tpl", src) == nil {
				e.RenderTo(io.Discard, "case_tpl", ctx)
			}
		})
	}
}

// shortRange: range(v, w) between two integers that are close to each other is a short list however large they are.
func shortRange(src string, v, w interface{}) bool {
	if !strings.Contains(src, "range(v, w)") {
		return false
	}
	a, ok1 := v.(int)
	b, ok2 := w.(int)
	if !ok1 || !ok2 || (a < 0) != (b < 0) {
		return false
	}
	d := a - b
	return d > -100 && d < 100
}

func hugeNumber(v interface{}) bool {
	switch x := v.(type) {
	case int:
		return x > 10000 || x < -10000
	case uint64:
		return x > 10000
	case float64:
		return math.IsNaN(x) || math.IsInf(x, 0) || math.Abs(x) > 10000
	case string:
		return x == "1e3"
	}
	return false
}

var reMacroName = regexp.MustCompile(`macro\s+([A-Za-z_][A-Za-z0-9_]*)`)

// selfRecursive: conservative syntactic filter for the statement's exclusion.
func selfRecursive(src string) bool {
	if !strings.Contains(src, "macro") {
		return false
	}
	if strings.Contains(src, "_self") {
		return true
	}
	names := map[string]bool{}
	for _, m := range reMacroName.FindAllStringSubmatch(src, -1) {
		names[m[1]] = true
	}
	// any macro name mentioned between a macro tag and the next endmacro
	rest := src
	for {
		i := strings.Index(rest, "macro")
		if i < 0 {
			return false
		}
		rest = rest[i+5:]
		j := strings.Index(rest, "endmacro")
		bodyEnd := len(rest)
		if j >= 0 {
			bodyEnd = j
		}
		// skip the declaration itself
		body := rest[:bodyEnd]
		if k := strings.Index(body, "%}"); k >= 0 {
			body = body[k:]
		} else {
			body = ""
		}
		for n := range names {
			if strings.Contains(body, n) {
				return true
			}
		}
		if j < 0 {
			return false
		}
		rest = rest[j+8:]
	}
}

var reRange = regexp.MustCompile(`range\s*\([^)]*\)`)
var reDigits = regexp.MustCompile(`[0-9]{3,}`)
var reDigits5 = regexp.MustCompile(`[0-9]{5,}`)

func capDigits(src string) string {
	src = reRange.ReplaceAllStringFunc(src, func(s string) string {
		return reDigits.ReplaceAllStringFunc(s, func(d string) string { return d[:2] })
	})
	return reDigits5.ReplaceAllStringFunc(src, func(d string) string { return d[:4] })
}

var c05Tokens = []string{"{{", "}}", "{%", "%}", "{#", "#}", "{{-", "-}}", "{%-", "-%}", "|", "(", ")", "[", "]", "{", "}", ".", ",", ":", "?", "~", "'", "\"", "\\", "-", "=",
	" if ", " endif ", " for ", " in ", " endfor ", " else ", " elseif ", " block ", " endblock ", " extends ", " include ", " set ", " macro ", " endmacro ", " import ", " from ", " as ",
	" with ", " only ", " ignore missing ", " apply ", " endapply ", " verbatim ", " endverbatim ", " spaceless ", " endspaceless ", " do ", " is ", " not ", " and ", " or ", " defined ", "parent()", "loop", "null", "true", "\x00", "\xff", "é", "\n", "\r\n", "\t", "0", "1", "999"}

func c05Mutate(r *core.Rand, src string, other string) string {
	b := []byte(src)
	n := r.Range(1, 4)
	for i := 0; i < n && len(b) > 0; i++ {
		pos := r.Intn(len(b) + 1)
		switch r.Intn(9) {
		case 0: // delete a byte range
			end := pos + r.Range(1, 6)
			if end > len(b) {
				end = len(b)
			}
			b = append(b[:pos:pos], b[end:]...)
		case 1: // insert a token
			tok := c05Tokens[r.Intn(len(c05Tokens))]
			b = append(b[:pos:pos], append([]byte(tok), b[pos:]...)...)
		case 2: // duplicate a chunk
			end := pos + r.Range(1, 30)
			if end > len(b) {
				end = len(b)
			}
			chunk := append([]byte{}, b[pos:end]...)
			b = append(b[:end:end], append(chunk, b[end:]...)...)
		case 3: // swap two chunks
			if len(b) > 8 {
				a := r.Intn(len(b) - 4)
				c := r.Intn(len(b) - 4)
				for k := 0; k < 4; k++ {
					b[a+k], b[c+k] = b[c+k], b[a+k]
				}
			}
		case 4: // overwrite a byte
			if pos < len(b) {
				b[pos] = byte(r.Intn(256))
			}
		case 5: // truncate
			b = b[:pos]
		case 6: // splice with the other program
			if len(other) > 0 {
				o := r.Intn(len(other))
				b = append(b[:pos:pos], []byte(other[o:])...)
			}
		case 7: // cut a tag in half: delete from a delimiter to somewhere
			if i := bytes.Index(b[min(pos, len(b)):], []byte("%}")); i >= 0 {
				at := min(pos, len(b)) + i
				b = append(b[:at:at], b[at+2:]...)
			}
		default: // replace an identifier-ish byte run by a token
			tok := c05Tokens[r.Intn(len(c05Tokens))]
			end := pos + r.Range(1, 5)
			if end > len(b) {
				end = len(b)
			}
			b = append(b[:pos:pos], append([]byte(tok), b[end:]...)...)
		}
	}
	return string(b)
}

// seed corpus: one template per tag kind and boundary
var c05Corpus = []string{
	"a{{ v }}b", "{{ v|upper|slice(1, 2) }}", "{{ v.a.b['c'][0] }}", "{{ f(1, 'x', [1, 2], {'a': 1}) }}", "{{ a ? b : c }}", "{{ (a + b) * -c ~ 'x' }}", "{{ a is defined and not b or c in d }}",
	"{% if a %}x{% elseif b %}y{% else %}z{% endif %}", "{% for i in xs %}{{ loop.index }}{% else %}e{% endfor %}", "{% for k, v in m %}{{ k }}{% endfor %}", "{% set x = 1 + 2 %}{{ x }}",
	"{% block b %}x{{ parent() }}{% endblock %}", "{% extends 'base' %}{% block title %}t{% endblock %}", "{% include 'part' with {'pv': 1} only %}", "{% include 'nope' ignore missing %}", "{% include ['a', 'b'] %}",
	"{% macro m(a, b = 'd') %}{{ a }}{{ b }}{% endmacro %}{{ m(1) }}", "{% import 'lib' as l %}{{ l.twice(2) }}", "{% from 'lib' import twice as t2, field %}{{ t2(1) }}",
	"{% apply upper %}x{% endapply %}", "{% spaceless %}<a> <b> </b> </a>{% endspaceless %}", "{% verbatim %}{{ raw }}{% endverbatim %}", "{# comment {{ x }} #}", "{% do 1 + 2 %}", "{% do x = 5 %}{{ x }}",
	"{{- v -}} x {%- if a -%} y {%- endif -%}", "{{ 'str with }} inside' }}", "{{ \"dq \\\" esc\" }}", "\\{{ escaped }}", "{{ [1, 2, 3]|slice(1)|join(',') }}", "{{ {'a': 1, 'b': [1, {'c': 2}]}|json_encode }}",
	"{{ range(1, 5)|reverse|join }}", "{{ 'now'|date('Y-m-d') }}", "{{ 1234.5|number_format(2, ',', '.') }}", "{% for i in range(3, 1, -1) %}{{ i }}{% endfor %}", "{{ a matches '/^x/i' }}", "{{ a starts with 'x' or a ends with 'y' }}",
	"{% if a is not defined %}u{% endif %}{% if a not defined %}v{% endif %}", "{{ a|default('d')|e }}", "{% include 'part' sandboxed %}", "{% block outer %}{% block inner %}i{% endblock %}{% endblock outer %}",
}

func (p *c05) Run(rec *core.Recorder, seed uint64, idx int, tier string) {
	twig.SetDebugWriter(io.Discard)
	r := core.NewRand("C05", seed, idx)
	vals := c05Values()

	// ---- A: value-shape × construct grid
	nFilterCons := len(c05Filters) * len(c05ArgSets)
	consPerVal := len(c05Constructs) + nFilterCons
	nA := len(vals) * consPerVal
	if idx < nA {
		v := vals[idx/consPerVal]
		k := idx % consPerVal
		var src string
		if k < len(c05Constructs) {
			src = c05Constructs[k]
		} else {
			k -= len(c05Constructs)
			src = "{{ v|" + c05Filters[k/len(c05ArgSets)] + c05ArgSets[k%len(c05ArgSets)] + " }}"
		}
		w := vals[(idx*7+3)%len(vals)]
		if strings.Contains(src, "range(") {
			// asking for ~2^63 (or infinitely many) elements is resource exhaustion by request, not a hang
			if (hugeNumber(v.V) || hugeNumber(w.V)) && !shortRange(src, v.V, w.V) {
				rec.Count("skipped-resource-request", 1)
				return
			}
		}
		cs := map[string]any{"source": src, "v": v.Name, "w": w.Name}
		rec.Eval("value-grid", src+"\x00"+v.Name+"\x00"+w.Name, true)
		e := c05NewEngine(nil)
		c05Exercise(rec, "value-grid", e, src, map[string]interface{}{"v": v.V, "w": w.V}, cs)
		c05CanaryCheck(rec, e, "rendering "+src+" with v="+v.Name, cs)
		if rec.WantSample("value-grid") {
			rec.Sample("value-grid", cs)
		}
		return
	}
	idx -= nA

	// ---- A2: every ordered pair of value shapes under the constructs that take two operands (one pair in six in the quick
	// tier, chosen by the seed; all of them in the thorough tier)
	nP := len(vals) * len(vals) * len(c05PairConstructs)
	if idx < nP {
		src := c05PairConstructs[idx%len(c05PairConstructs)]
		k := idx / len(c05PairConstructs)
		v, w := vals[k/len(vals)], vals[k%len(vals)]
		if tier != "thorough" && r.Intn(6) != 0 && !shortRange(src, v.V, w.V) {
			return
		}
		if strings.Contains(src, "range(") || strings.Contains(src, "slice(") || strings.Contains(src, "cycle(") || strings.Contains(src, "number_format(") || strings.Contains(src, "round(") || strings.Contains(src, "batch(") {
			if (hugeNumber(v.V) || hugeNumber(w.V)) && !shortRange(src, v.V, w.V) {
				rec.Count("skipped-resource-request", 1)
				return
			}
		}
		cs := map[string]any{"source": src, "v": v.Name, "w": w.Name}
		rec.Eval("pair-grid", src+"\x00"+v.Name+"\x00"+w.Name, true)
		e := c05NewEngine(nil)
		c05ExerciseOne(rec, "pair-grid", e, src, map[string]interface{}{"v": v.V, "w": w.V}, cs)
		if idx%16 == 0 {
			c05CanaryCheck(rec, e, "rendering "+src+" with v="+v.Name+" w="+w.Name, cs)
		}
		if rec.WantSample("pair-grid") {
			rec.Sample("pair-grid", cs)
		}
		return
	}
	idx -= nP

	// ---- B: exhaustive truncation and single-byte deletion of the corpus
	nB := 0
	for _, c := range c05Corpus {
		nB += 2 * len(c)
	}
	if idx < nB {
		k := idx
		for _, c := range c05Corpus {
			if k < 2*len(c) {
				var src string
				if k < len(c) {
					src = c[:k]
				} else {
					j := k - len(c)
					src = c[:j] + c[j+1:]
				}
				cs := map[string]any{"source": src}
				rec.Eval("truncation", src, true)
				ts := c05SeedSet()
				e := c05NewEngine(ts)
				ctx := c05Ctx()
				c05Exercise(rec, "truncation", e, src, ctx, cs)
				c05CanaryCheck(rec, e, "source "+fmt.Sprintf("%q", src), cs)
				if rec.WantSample("truncation") {
					rec.Sample("truncation", cs)
				}
				return
			}
			k -= 2 * len(c)
		}
	}
	idx -= nB

	// ---- D: pathological shapes
	c05PathoOnce.Do(func() { c05Patho = c05Pathological() })
	patho := c05Patho
	if idx < len(patho) {
		src := patho[idx]
		cs := map[string]any{"source": core.Trunc(src, 300), "len": len(src)}
		rec.Eval("pathological", src, true)
		e := c05NewEngine(c05SeedSet())
		c05Exercise(rec, "pathological", e, src, c05Ctx(), cs)
		c05CanaryCheck(rec, e, "pathological source", cs)
		rec.Sample("pathological", cs)
		return
	}
	idx -= len(patho)

	// ---- E/C interleaved: blobs (1 in 6) and mutations
	if idx%6 == 0 {
		p.blob(rec, r, idx/6)
		return
	}
	if idx%9 == 4 {
		// mutation of an entry of the independently written corpus (or, one time in four, the entry as it is)
		if we, ok := wildPick(r); ok {
			srcs := we.Srcs()
			names := sortedKeys(srcs)
			src := srcs[we.Render]
			if !r.P(1, 4) {
				src = capDigits(c05Mutate(r, src, srcs[names[r.Intn(len(names))]]))
			}
			if selfRecursive(src) || strings.Contains(src, "'"+we.Render+"'") || strings.Contains(src, "\""+we.Render+"\"") {
				rec.Count("skipped-as-recursive", 1)
				return
			}
			cs := map[string]any{"source": src, "corpus_entry": we.ID}
			rec.Eval("mutation", src, true)
			rec.Count("wild-mutations", 1)
			delete(srcs, we.Render)
			e := c05NewEngine(srcs)
			ctx := we.Ctx(nil)
			for k, v := range c05Ctx() {
				if _, ok := ctx[k]; !ok {
					ctx[k] = v
				}
			}
			c05Exercise(rec, "mutation", e, src, ctx, cs)
			c05CanaryCheck(rec, e, "mutated corpus entry", cs)
			return
		}
	}
	// mutation of a generated program
	ts := GenTSet(r.Fork(), "m")
	srcs := (&mt.Printer{R: r.Fork()}).SourceSet(ts.Set)
	names := sortedKeys(srcs)
	var base string
	if r.P(1, 3) {
		base = c05Corpus[r.Intn(len(c05Corpus))]
	} else {
		base = srcs[names[r.Intn(len(names))]]
	}
	other := srcs[names[r.Intn(len(names))]]
	src := capDigits(c05Mutate(r, base, other))
	if selfRecursive(src) {
		rec.Count("skipped-as-recursive", 1)
		return
	}
	cs := map[string]any{"source": src}
	if os.Getenv("VERIF_TRACE") != "" {
		fmt.Fprintf(os.Stderr, "TRACE mutation source: %q\n", src)
	}
	rec.Eval("mutation", src, true)
	e := c05NewEngine(srcs)
	ctx := ts.GoCtx()
	for k, v := range c05Ctx() {
		if _, ok := ctx[k]; !ok {
			ctx[k] = v
		}
	}
	c05Exercise(rec, "mutation", e, src, ctx, cs)
	c05CanaryCheck(rec, e, "mutated source", cs)
	if rec.WantSample("mutation") {
		rec.Sample("mutation", cs)
	}
}

func c05SeedSet() map[string]string {
	return map[string]string{
		"base": "<t>{% block title %}T0{% endblock %}</t>{% block body %}B0{% endblock %}",
		"part": "(part {{ pv }})",
		"lib":  "{% macro twice(x) %}{{ x }}{{ x }}{% endmacro %}{% macro field(n, v) %}<{{ n }}={{ v }}>{% endmacro %}",
		"a":    "A", "b": "B",
	}
}

func c05Ctx() map[string]interface{} {
	return map[string]interface{}{"v": "val", "a": 1, "b": 0, "c": 3, "d": []interface{}{1, 2}, "xs": []interface{}{1, 2, 3}, "m": map[string]interface{}{"k": "v"},
		"f": "notafunc", "x": "xx", "raw": "RAW", "mak": map[[2]int]string{{1, 2}: "x"}, "shortl": []int{1}, "longl": []int{1, 2, 3}}
}

var (
	c05PathoOnce sync.Once
	c05Patho     []string
)

func c05Pathological() []string {
	var out []string
	rep := strings.Repeat
	out = append(out,
		rep("{% if a %}", 200)+"x"+rep("{% endif %}", 200),
		rep("{% for i in xs %}", 6)+"{{ i }}"+rep("{% endfor %}", 6),
		rep("(", 300)+"1"+rep(")", 300),
		"{{ "+rep("(", 300)+"1"+rep(")", 300)+" }}",
		"{{ "+rep("[", 200)+rep("]", 200)+" }}",
		"{{ "+rep("-", 500)+"1 }}",
		// nesting and chaining far beyond what a Go stack of the harness's size (96 MB) carries: an error is fine, a dead process is not
		"{{ "+rep("(", 400000)+"1"+rep(")", 400000)+" }}", "{{ "+rep("not ", 400000)+"a }}", "{{ 1"+rep(" + 1", 300000)+" }}", "{{ "+rep("[", 300000)+rep("]", 300000)+" }}", "{{ a"+rep("|upper", 300000)+" }}", "{{ "+rep("-", 400000)+"1 }}",
		"{{ mak[shortl] }}|{{ mak[longl] }}|{{ mak[xs] }}|{{ mak[d] }}|{{ mak['a'] }}|{{ mak[[1, 2]] }}", "{% if mak[shortl] is defined %}d{% endif %}{% for k, v in mak %}{{ v }}{% endfor %}{{ shortl in mak ? 1 : 0 }}",
		"{% if "+rep("(", 200000)+"a"+rep(")", 200000)+" %}x{% endif %}", "{{ a ? "+rep("(a ? ", 100000)+"1"+rep(" : 2)", 100000)+" : 3 }}", "{{ f("+rep("f(", 200000)+"1"+rep(")", 200000)+") }}",
		"{{ '2023-01-02'|date('Y-m-d\\ '|trim) }}", "{% set f = 'Y\\ '|trim %}{{ '2023-01-02'|date(f) }}{{ 'now'|date(f) }}", "{{ '%'|format(1) }}{{ 'a%'|format }}{{ '50\\ '|trim|format(1) }}",
		"{{ "+rep("not ", 500)+"a }}",
		"{{ a"+rep("|upper", 2000)+" }}",
		"{{ a"+rep(".b", 2000)+" }}",
		"{{ a"+rep("[0]", 2000)+" }}",
		"{{ 1"+rep(" + 1", 5000)+" }}",
		"{{ a"+rep(" ? b : c", 300)+" }}",
		rep("{{ v }}", 10000),
		rep("{% set x = 1 %}", 5000),
		rep("{# c #}", 10000),
		rep("{{", 1000), rep("}}", 1000), rep("{%", 1000), rep("%}", 1000), rep("{#", 1000), rep("{{-", 500), rep("-%}", 500),
		"{{", "{%", "{#", "{{ ", "{% ", "{{-", "{%-", "{% %}", "{{ }}", "{%%}", "{{}}", "{##}", "{%-%}", "{{-}}", "{#-#}", "{{--}}", "{%--%}", "{#--#}", "{{- -}}", "{% - %}", "{{-}", "{%-%", "x{{-}}y", " {%-%} ", "{{-}}{{-}}", "{{ - }}", "{{-a}}", "{{a-}}", "{%-if a-%}{%-endif-%}",
		"{% if %}", "{% for %}", "{% for in %}", "{% for x in %}", "{% for , in x %}", "{% set %}", "{% set = %}", "{% set x = %}", "{% block %}", "{% extends %}", "{% include %}", "{% macro %}", "{% macro ( %}", "{% macro m( %}", "{% macro m(a = ) %}",
		"{% import %}", "{% import 'x' %}", "{% import 'x' as %}", "{% from %}", "{% from 'x' %}", "{% from 'x' import %}", "{% apply %}", "{% verbatim %}", "{% endverbatim %}", "{% do %}", "{% endif %}", "{% else %}", "{% endfor %}", "{% endblock %}", "{% endmacro %}",
		"{% if a %}{% else %}{% else %}{% endif %}", "{% if a %}{% elseif %}{% endif %}", "{% for i in xs %}{% endif %}", "{% block a %}{% endblock b %}", "{% block a %}{% block a %}{% endblock %}{% endblock %}",
		"{{ 'unterminated }}", "{{ \"unterminated }}", "{{ 'a' 'b' }}", "{{ 1 2 }}", "{{ a b }}", "{{ , }}", "{{ a, b }}", "{{ a | }}", "{{ | a }}", "{{ a || b }}", "{{ a && }}", "{{ a. }}", "{{ .a }}", "{{ a[ }}", "{{ a] }}", "{{ a( }}", "{{ a) }}", "{{ {a} }}", "{{ {'a' 1} }}", "{{ {'a':} }}", "{{ {:1} }}",
		"{{ a ? }}", "{{ a ? b }}", "{{ a ? b : }}", "{{ ? b : c }}", "{{ a is }}", "{{ a is not }}", "{{ is defined }}", "{{ a in }}", "{{ not }}", "{{ - }}", "{{ a not }}", "{{ a starts }}", "{{ a ends with }}", "{{ a matches }}",
		"{{ 1e999 }}", "{{ 99999999999999999999999 }}", "{{ 0x10 }}", "{{ 1.2.3 }}", "{{ 1..5 }}", "{{ a ?? b }}", "{{ a ?: b }}", "{{ a // b }}", "{{ a ** b }}", "{{ a b-and c }}", "{{ a <=> b }}", "{{ a === b }}", "{{ !a }}",
		"\x00", "\xff\xfe", "{{ \x00 }}", "{{ a\x00b }}", "{% \xff %}", "{{ 'é' ~ \"日本\" }}", "{{ é }}", "{{ 日本 }}", "{% set é = 1 %}",
		"{% extends 'base' %}{% extends 'base' %}", "{% extends 'base' %}text{% block title %}{{ parent() }}{{ parent() }}{% endblock %}", "{{ parent() }}", "{% block b %}{{ parent() }}{% endblock %}",
		"{% include 'part' with %}", "{% include 'part' with 5 %}", "{% include 'part' with {'a': } %}", "{% include 'part' with {a: 1, %}", "{% include 'part' only only %}", "{% include 'part' ignore %}", "{% include 5 %}", "{% include null %}", "{% include [] %}",
		"{% macro m() %}{% macro n() %}{% endmacro %}{% endmacro %}", "{% macro m(a, a) %}{{ a }}{% endmacro %}{{ m(1, 2) }}", "{% macro m(a) %}{% endmacro %}{{ m(1, 2, 3, 4, 5, 6, 7, 8, 9) }}",
		"{% from 'lib' import nosuch %}", "{% from 'lib' import twice as %}", "{% import 'lib' as l %}{{ l.nosuch() }}{{ l.twice }}{{ l }}", "{% import 'part' as p %}{{ p.x() }}",
		"{% for i in 'abc' %}{% for j in i %}{{ j }}{% endfor %}{% endfor %}", "{% for i in 5 %}{{ i }}{% endfor %}", "{% for i in null %}x{% else %}e{% endfor %}", "{% for loop in xs %}{{ loop }}{% endfor %}", "{% for i in xs %}{% set xs = [] %}{{ i }}{% endfor %}",
		"{% set loop = 1 %}{% for i in xs %}{{ loop.index }}{% endfor %}{{ loop }}", "{% apply nosuchfilter %}x{% endapply %}", "{% apply upper|lower %}x{% endapply %}", "{% apply slice(1, 2) %}abcdef{% endapply %}",
		"{% verbatim %}{% endverbatim %}{% endverbatim %}", "{% verbatim %}{{ unclosed {% endverbatim %}", "{% verbatim %}{% verbatim %}{% endverbatim %}", "{% spaceless %}{% endspaceless %}{% endspaceless %}",
		// extends tags in places where they re-enter the layout that is being rendered
		"{% extends 'base' %}{% block body %}{% extends 'base' %}{% endblock %}", "{% extends 'base' %}{% block body %}{% extends 'base' %}{% block title %}x{% endblock %}{% endblock %}",
		"{% block a %}{% extends 'base' %}{% endblock %}", "{% if a %}{% extends 'base' %}{% endif %}", "{% for i in xs %}{% extends 'base' %}{% endfor %}", "{% extends 'base' %}{% block body %}{% include 'base' %}{{ parent() }}{% endblock %}",
		"{% extends 'base' %}{% block body %}{% block title %}{% extends 'base' %}{% endblock %}{% endblock %}", "{% extends 'base' %}{% extends 'base' %}{% block body %}{% extends 'base' %}{{ parent() }}{% endblock %}",
		strings.Repeat("x", 4090)+"{{ v", strings.Repeat("x", 4100)+"{{ v", strings.Repeat("x", 4100)+"{{ v }", strings.Repeat("x", 4100)+"{", strings.Repeat("x", 4100)+"{%", strings.Repeat("x", 4100)+"{{ v -}}", strings.Repeat("x", 4100)+"{{- v -", strings.Repeat("x", 4100)+"{#",
		strings.Repeat("{{ v }}\n", 600)+"{% if", strings.Repeat("é", 2100)+"{{ v }}\\", "\\", "\\{{", "\\{% x", strings.Repeat("\\{{ x }}", 600),
	)
	// string-literal escapes: every byte after a backslash, alone, followed by one more character, and at the end of the literal
	for b := 0; b < 256; b++ {
		c := string([]byte{byte(b)})
		if c == "\"" {
			continue
		}
		out = append(out, "{{ \"\\"+c+"\" }}", "{{ \"a\\"+c+"4\" }}", "{{ '\\x"+c+"' }}", "{{ v|default(\"\\"+c+"\") }}")
	}
	out = append(out, `{{ "\x" }}`, `{{ "\x4" }}`, `{{ "\x41" }}`, `{{ "\x414" }}`, `{{ "\u" }}`, `{{ "\u00" }}`, `{{ "\u0041" }}`, `{{ "\u{1F600}" }}`, `{{ "\u{" }}`, `{{ "\0" }}`, `{{ "\400" }}`, `{{ "\8" }}`,
		`{{ "\" }}`, `{{ 'a\' }}`, `{{ "\\" }}`, `{{ "\\\" }}`, `{{ "#{x}" }}`, `{{ "#{" }}`, "{{ \"\\\n\" }}", `{{ '\' ~ "\\" }}`, `{% set q = "\x" %}`, `{% include "\x4" ignore missing %}`, `{{ {"\x": 1}|keys|first }}`)
	return out
}

// ---- compiled blobs

func c05ValidBlob(r *core.Rand) []byte {
	srcs := []string{"", "x", "{{ a }}", "{% for i in xs %}{{ i }}{% endfor %}", strings.Repeat("text {{ a }} ", 30)}
	ct := &twig.CompiledTemplate{Name: "blob", Source: srcs[r.Intn(len(srcs))], LastModified: int64(r.Intn(1 << 30)), CompileTime: int64(r.Intn(1 << 30))}
	if r.P(1, 2) {
		e := twig.New()
		if e.RegisterString("blob", ct.Source) == nil {
			if c, err := e.CompileTemplate("blob"); err == nil {
				ct = c
			}
		}
	}
	b, _ := twig.SerializeCompiledTemplate(ct)
	return b
}

func (p *c05) blob(rec *core.Recorder, r *core.Rand, k int) {
	var data []byte
	kind := r.Intn(8)
	switch kind {
	case 0: // random bytes
		data = make([]byte, r.Range(0, 64))
		for i := range data {
			data[i] = byte(r.Intn(256))
		}
	case 1: // random bytes with a valid version byte
		data = make([]byte, r.Range(1, 64))
		for i := range data {
			data[i] = byte(r.Intn(256))
		}
		data[0] = 1
	case 2, 3: // valid blob truncated
		b := c05ValidBlob(r)
		data = b[:r.Intn(len(b)+1)]
	case 4: // length prefix edits
		b := c05ValidBlob(r)
		if len(b) >= 5 {
			vals := []uint32{0, 1, uint32(len(b)), uint32(len(b)) + 1, 1 << 20, 1 << 28, 1<<31 - 1}
			binary.LittleEndian.PutUint32(b[1:5], vals[r.Intn(len(vals))])
		}
		data = b
	case 5: // version sweep / byte flips
		b := c05ValidBlob(r)
		for i := 0; i < r.Range(1, 4); i++ {
			b[r.Intn(len(b))] = byte(r.Intn(256))
		}
		data = b
	case 6: // valid
		data = c05ValidBlob(r)
	default: // gob-looking garbage (old format fallback)
		data = append([]byte{0x3f, 0xff, 0x81, 0x03, 0x01, 0x01}, []byte("CompiledTemplate\x01\xff\x82\x00\x01\x05\x01\x04Name\x01\x0c\x00")...)
		for i := 0; i < r.Range(0, 20); i++ {
			data = append(data, byte(r.Intn(256)))
		}
	}
	cs := map[string]any{"blob_hex": fmt.Sprintf("%x", data[:min(len(data), 120)]), "len": len(data), "kind": kind}
	rec.Eval("blob", string(data), true)
	e := c05NewEngine(nil)
	c05Guarded(rec, "blob", "DeserializeCompiledTemplate", cs, func() {
		ct, err := twig.DeserializeCompiledTemplate(data)
		if err == nil && ct != nil {
			rec.Count("blob-decoded", 1)
		}
	})
	c05Guarded(rec, "blob", "LoadFromCompiledData", cs, func() {
		if err := e.LoadFromCompiledData(data); err == nil {
			rec.Count("blob-loaded", 1)
			for _, n := range e.GetCachedTemplateNames() {
				e.Render(n, c05Ctx())
			}
		}
	})
	c05CanaryCheck(rec, e, "loading a compiled blob", cs)
	if rec.WantSample("blob") {
		rec.Sample("blob", cs)
	}
}
