package props

import (
	"bytes"
	"fmt"
	"math"
	"os"
	"path/filepath"
	"strings"

	"github.com/semihalev/twig"

	"verifharness/internal/core"
	"verifharness/internal/mt"
)

// C16 — a compiled template is interchangeable with its source.
type c16 struct{ base }

func init() {
	Register(&c16{base{
		id: "C16", level: "exploration",
		technique: "round-trip equality monitor on CompiledTemplate{Name, Source, LastModified, CompileTime} + metamorphic render equality (source engine vs engine loaded from the serialised compiled form, incl. through CompiledLoader files)",
		rule: "case = (a) a CompiledTemplate with arbitrary name/source bytes (empty, NUL, invalid UTF-8, sizes around 2^8 and 2^16, up to 1 MiB; 16 MiB in thorough), extreme timestamps and random AST blobs: serialise -> deserialise must reproduce the four fields; " +
			"(b) a generated program: engine A registers, compiles, serialises; engine B loads the bytes; engine C renders the source; outputs for 3 contexts must be equal, also for templates that include / extend / import other templates loaded the same way; (c) the same through CompiledLoader.SaveCompiled and a second engine's CompiledLoader. " +
			"Non-trivial: source contains a tag or a non-UTF-8 / NUL byte, or is >= 65536 bytes. Distinct = distinct (name, source).",
		assumptions: []string{
			"an AST blob that decodes differently is recorded but is not a verdict (the tree is an optional accelerator that falls back to re-parsing)",
			"sources >= 4 GiB (uint32 length prefix) are out of reach",
		},
		quick: 16000, thorough: 120000, minQuick: 2500, minThorough: 50000,
	}})
}

func (p *c16) Shards(string) int         { return 16 }
func (p *c16) CaseTimeoutSec(string) int { return 180 }
func (p *c16) RequiredCounters(string) []string {
	return []string{"class:struct-roundtrip", "class:pipeline", "class:compiled-loader", "sources>=65536"}
}

func c16Bytes(r *core.Rand, n int) string {
	b := make([]byte, n)
	mode := r.Intn(4)
	for i := range b {
		switch mode {
		case 0:
			b[i] = byte(r.Intn(256))
		case 1:
			b[i] = "abc {}%#\n\x00\xff"[r.Intn(11)]
		default:
			b[i] = byte('a' + r.Intn(26))
		}
	}
	return string(b)
}

func (p *c16) Run(rec *core.Recorder, seed uint64, idx int, tier string) {
	r := core.NewRand("C16", seed, idx)
	switch idx % 5 {
	case 0, 1:
		p.structRT(rec, r, tier)
	case 2, 3:
		p.pipeline(rec, r, false)
	default:
		p.pipeline(rec, r, true)
	}
}

func (p *c16) structRT(rec *core.Recorder, r *core.Rand, tier string) {
	sizes := []int{0, 1, 2, 254, 255, 256, 257, 4095, 4096, 4097, 65534, 65535, 65536, 65537, 70000, 1 << 20}
	if tier == "thorough" && r.P(1, 200) {
		sizes = append(sizes, 16<<20)
	}
	ts := []int64{0, 1, -1, math.MaxInt64, math.MinInt64, 1700000000, int64(r.U64())}
	ct := &twig.CompiledTemplate{
		Name:         c16Bytes(r, []int{0, 1, 5, 255, 256, 300, 70000}[r.Intn(7)]),
		Source:       c16Bytes(r, sizes[r.Intn(len(sizes))]),
		LastModified: ts[r.Intn(len(ts))],
		CompileTime:  ts[r.Intn(len(ts))],
	}
	if r.P(1, 3) {
		ct.AST = []byte(c16Bytes(r, []int{0, 1, 100, 70000}[r.Intn(4)]))
	}
	nontrivial := len(ct.Source) >= 65536 || strings.ContainsAny(ct.Source, "\x00\xff{")
	rec.Eval("struct-roundtrip", ct.Name+"\x00"+ct.Source, nontrivial)
	if len(ct.Source) >= 65536 {
		rec.Count("sources>=65536", 1)
	}
	rec.Max("max:source-bytes", len(ct.Source))
	cs := map[string]any{"name_len": len(ct.Name), "source_len": len(ct.Source), "lastModified": ct.LastModified, "compileTime": ct.CompileTime, "ast_len": len(ct.AST),
		"name_head": fmt.Sprintf("%q", core.Trunc(ct.Name, 40)), "source_head": fmt.Sprintf("%q", core.Trunc(ct.Source, 60))}
	var data []byte
	var back *twig.CompiledTemplate
	var err error
	// the serialised bytes belong to the caller: other serialisations in between (same goroutine, pooled buffers) must
	// leave them as they were
	var kept []byte
	panicked, site, val, stack := core.Guard(func() {
		data, err = twig.SerializeCompiledTemplate(ct)
		if err == nil {
			kept = bytes.Clone(data)
			for _, n := range []int{10, len(ct.Source), 70000} {
				twig.SerializeCompiledTemplate(&twig.CompiledTemplate{Name: "other", Source: strings.Repeat("Z", n), LastModified: 7, CompileTime: 8})
			}
			// the bytes handed to the decoder belong to the caller as well: a read buffer that is used again afterwards
			// must not reach into what was decoded from it
			buf := bytes.Clone(data)
			back, err = twig.DeserializeCompiledTemplate(buf)
			for i := range buf {
				buf[i] = '#'
			}
		}
	})
	rec.Count("bytes-held-across-other-serialisations", 1)
	if !panicked && err == nil && !bytes.Equal(kept, data) {
		rec.Violate("roundtrip", "serialised-bytes-overwritten", "the bytes returned by SerializeCompiledTemplate changed when other templates were serialised afterwards", cs, "")
		return
	}
	if panicked {
		rec.Violate("panic", "panic@"+site, "serialise/deserialise panicked: "+val, cs, stack)
		return
	}
	if err != nil || back == nil {
		rec.Violate("roundtrip", "roundtrip-error", fmt.Sprintf("serialise -> deserialise failed: %v", err), cs, "")
		return
	}
	if back.Name != ct.Name || back.Source != ct.Source || back.LastModified != ct.LastModified || back.CompileTime != ct.CompileTime {
		which := []string{}
		if back.Name != ct.Name {
			which = append(which, "Name")
		}
		if back.Source != ct.Source {
			which = append(which, "Source")
		}
		if back.LastModified != ct.LastModified {
			which = append(which, fmt.Sprintf("LastModified %d->%d", ct.LastModified, back.LastModified))
		}
		if back.CompileTime != ct.CompileTime {
			which = append(which, fmt.Sprintf("CompileTime %d->%d", ct.CompileTime, back.CompileTime))
		}
		rec.Violate("roundtrip", "roundtrip-fields:"+strings.Join(which, ","), "serialise -> deserialise changed "+strings.Join(which, ", "), cs, "")
		return
	}
	if !bytes.Equal(back.AST, ct.AST) && !(len(back.AST) == 0 && len(ct.AST) == 0) {
		rec.Count("ast-blob-differs(not-a-verdict)", 1)
	}
	if rec.WantSample("struct-roundtrip") {
		rec.Sample("struct-roundtrip", cs)
	}
}

// pathyNames reports whether a template set spells names that only a directory-backed loader would normalise ("a/../p",
// "a//p", "a/./p"): an in-memory loader treats them as unknown names, a directory treats them as "a/p" or "p". The
// difference is one between loader kinds, not between a template and its compiled form, so such sets are not compared
// across the two.
func pathyNames(srcs map[string]string) bool {
	for n, s := range srcs {
		for _, bad := range []string{"/../", "//", "/./"} {
			if strings.Contains(s, bad) || strings.Contains(n, bad) {
				return true
			}
		}
	}
	return false
}

func (p *c16) pipeline(rec *core.Recorder, r *core.Rand, viaLoader bool) {
	ts := GenTSet(r.Fork(), "K")
	srcs := (&mt.Printer{R: r.Fork()}).SourceSet(ts.Set)
	ctxOf := func(k int) map[string]interface{} { return ts.GoCtxVariant(k) }
	wildEntry := ""
	if r.P(1, 6) {
		// an entry of the independently written corpus with its own context
		if we, ok := wildPick(r); ok && !(viaLoader && pathyNames(we.Templates)) {
			srcs, wildEntry = we.Srcs(), we.Render
			ctxOf = func(k int) map[string]interface{} { return we.Ctx(core.NewRand("C16wild", uint64(k), 0)) }
			rec.Count("wild-entries", 1)
		}
	}
	if wildEntry == "" && r.P(1, 5) {
		srcs["plain"] = strings.Repeat("<p>compiled filler paragraph</p>\n", 150+r.Intn(2000)) + srcs["plain"]
	}
	if wildEntry == "" && r.P(1, 6) {
		srcs["plain"] += "\x00\xff\xfe raw bytes \xc3"
	}
	class := "pipeline"
	if viaLoader {
		class = "compiled-loader"
	}
	// names that a file-name mapping could confuse with one another: each must come back as itself
	var twins []string
	if viaLoader {
		stem := fmt.Sprintf("kc%d", r.Intn(1000))
		for _, n := range []string{stem + "/x", stem + "_x", stem + ".x", stem + "-x", stem + " x", strings.ToUpper(stem) + "_X", stem + "__x", stem + "%2Fx", stem + "/sub/x", stem + "_sub_x", stem + "/sub_x", stem + "x", "é" + stem, "e" + stem} {
			if r.P(2, 3) {
				twins = append(twins, n)
				srcs[n] = c02Marker(n) + "{{ 1 + 1 }}"
			}
		}
	}
	entry := ts.Entries[r.Intn(len(ts.Entries))]
	if wildEntry != "" {
		entry = wildEntry
	}
	if core.Hash64(canonSrcs(srcs), entry, "suffix-twin")%3 == 0 {
		// a second template whose name is the entry's name plus ".twig" (and one minus it): two names, two templates
		srcs[entry+".twig"] = c02Marker(entry+".twig") + "{{ 2 + 2 }}"
		srcs[strings.TrimSuffix(entry, ".twig")+".html.twig"] = c02Marker("html") + "{{ 3 + 3 }}"
		rec.Count("suffix-twins", 1)
	}
	total := 0
	for _, s := range srcs {
		total += len(s)
	}
	rec.Eval(class, canonSrcs(srcs)+entry, true)
	if len(srcs["plain"]) >= 65536 {
		rec.Count("sources>=65536", 1)
	}
	cs := map[string]any{"templates": srcs, "render": entry}
	if total > 6000 {
		cs = map[string]any{"render": entry, "total_source_bytes": total, "entry_source": core.Trunc(srcs[entry], 1500)}
	}
	// engine A: source -> compiled bytes for every template
	a := freshEngine(srcs)
	stale := !viaLoader && r.P(1, 3)
	if stale {
		// sources registered by string carry a registration time; the destination engine below will hold other, later
		// registered templates under the same names before the compiled data arrives
		rec.Count("destination-had-the-names", 1)
		a = twig.New()
		for _, n := range sortedKeys(srcs) {
			if err := a.RegisterString(n, srcs[n]); err != nil {
				rec.Count("skipped-register-failed", 1)
				return
			}
		}
	}
	blobs := map[string][]byte{}
	var dir string
	if viaLoader {
		d, err := os.MkdirTemp("", "verif-c16-")
		if err != nil {
			rec.HarnessFault("mkdtemp: %v", err)
			return
		}
		dir = d
		defer os.RemoveAll(dir)
		for _, n := range append(append([]string{}, twins...), sortedKeys(srcs)...) {
			// sub-directories for names with a slash: there already in one case of two, left to the loader in the other
			if i := strings.LastIndex(n, "/"); i >= 0 && core.Hash64(canonSrcs(srcs), "predirs")%2 == 0 {
				os.MkdirAll(filepath.Join(dir, n[:i]), 0o755)
			}
		}
	}
	failed := false
	aliases := map[string]string{}
	if viaLoader {
		// templates that sit on the engine under a name they do not carry themselves (parsed, then registered)
		for i, n := range sortedKeys(srcs) {
			if i%3 == 0 && !strings.Contains(srcs[n], "extends") && len(srcs[n]) < 3000 {
				if t, err := a.ParseTemplate(srcs[n]); err == nil {
					alias := "alias_of_" + strings.ReplaceAll(n, "/", "_")
					a.RegisterTemplate(alias, t)
					aliases[alias] = n
				}
			}
		}
	}
	panicked, site, val, stack := core.Guard(func() {
		cl := twig.NewCompiledLoader(dir)
		for _, alias := range sortedKeys(aliases) {
			if err := cl.SaveCompiled(a, alias); err != nil {
				rec.Violate("compile", "savecompiled-failed", fmt.Sprintf("SaveCompiled(%q) failed: %v", alias, err), cs, "")
				failed = true
				return
			}
		}
		for _, n := range sortedKeys(srcs) {
			if viaLoader {
				if err := cl.SaveCompiled(a, n); err != nil {
					rec.Violate("compile", "savecompiled-failed", fmt.Sprintf("SaveCompiled(%q) failed: %v", n, err), cs, "")
					failed = true
					return
				}
				continue
			}
			ct, err := a.CompileTemplate(n)
			if err != nil {
				rec.Violate("compile", "compile-failed", fmt.Sprintf("CompileTemplate(%q) failed: %v", n, err), cs, "")
				failed = true
				return
			}
			b, err := twig.SerializeCompiledTemplate(ct)
			if err != nil {
				rec.Violate("compile", "serialise-failed", fmt.Sprintf("SerializeCompiledTemplate(%q) failed: %v", n, err), cs, "")
				failed = true
				return
			}
			blobs[n] = b
		}
	})
	if panicked {
		rec.Violate("panic", "panic@"+site, "compile/serialise panicked: "+val, cs, stack)
		return
	}
	if failed {
		return
	}
	autoB := !viaLoader && r.P(1, 3)
	var emptyDir string
	if autoB {
		d, err := os.MkdirTemp("", "verif-c16e-")
		if err != nil {
			rec.HarnessFault("mkdtemp: %v", err)
			return
		}
		emptyDir = d
		defer os.RemoveAll(emptyDir)
		rec.Count("destination-with-auto-reload-and-file-loader", 1)
	}
	for k := 0; k < 3; k++ {
		ctx := ctxOf(k)
		// engine C: the source
		rc := renderFresh(srcs, entry, ctx, nil)
		// engine B: the compiled form
		var rb Result
		rb.Panicked, rb.Site, rb.PanicVal, rb.Stack = core.Guard(func() {
			b := twig.New()
			if !viaLoader && autoB {
				// "any engine": also one with auto-reload on and a timestamp-aware loader that has none of the names
				b.SetAutoReload(true)
				b.RegisterLoader(twig.NewFileSystemLoader([]string{emptyDir}))
			}
			if viaLoader {
				b.RegisterLoader(twig.NewCompiledLoader(dir))
			} else {
				if stale {
					// "any engine": also one that already holds other templates under these names
					for _, n := range sortedKeys(blobs) {
						b.RegisterString(n, "STALE["+n+"]")
					}
					if k == 1 {
						b.Render(entry, ctx)
					}
				}
				// all blobs pass through one read buffer, as when they are read from a stream one after the other
				var readBuf []byte
				for _, n := range sortedKeys(blobs) {
					readBuf = append(readBuf[:0], blobs[n]...)
					if err := b.LoadFromCompiledData(readBuf); err != nil {
						rb.Err = fmt.Errorf("LoadFromCompiledData(%s): %w", n, err)
						return
					}
				}
				for i := range readBuf {
					readBuf[i] = '#'
				}
			}
			rb.Out, rb.Err = b.Render(entry, ctx)
		})
		rec.Count("render-pairs", 1)
		if rb.Panicked {
			rec.Violate("panic", "panic@"+rb.Site, "rendering the compiled form panicked: "+rb.PanicVal, cs, rb.Stack)
			return
		}
		if (rb.Err != nil) != (rc.Err != nil) || (rb.Err == nil && rb.Out != rc.Out) {
			rec.Violate("compiled-vs-source", core.SigHash("c16", canonSrcs(srcs)+entry),
				fmt.Sprintf("template %q loaded from its compiled form renders %s (err=%v), its source renders %s (err=%v)", entry, core.Q(core.Trunc(rb.Out, 200)), rb.Err, core.Q(core.Trunc(rc.Out, 200)), rc.Err), cs, "")
			return
		}
	}
	if viaLoader {
		// LoadAll reads back every file of the directory itself (sub-directories are left to Load)
		rec.Count("loadall-checks", 1)
		var names []string
		var lerr error
		core.Guard(func() {
			b2 := twig.New()
			lerr = twig.NewCompiledLoader(dir).LoadAll(b2)
			names = b2.GetCachedTemplateNames()
		})
		have := map[string]bool{}
		for _, n := range names {
			have[n] = true
		}
		var missing []string
		for _, n := range append(sortedKeys(srcs), sortedKeys(aliases)...) {
			if !strings.Contains(n, "/") && !have[n] {
				missing = append(missing, n)
			}
		}
		if lerr != nil || len(missing) > 0 {
			rec.Violate("compiled-loader-names", "loadall-misses-files",
				fmt.Sprintf("LoadAll on the directory SaveCompiled wrote returned err=%v and left %d of the templates unloaded, e.g. %v", lerr, len(missing), missing[:min(3, len(missing))]), cs, "")
			return
		}
	}
	if len(aliases) > 0 {
		for _, alias := range sortedKeys(aliases) {
			rec.Count("alias-read-back", 1)
			var got string
			var err error
			core.Guard(func() { got, err = twig.NewCompiledLoader(dir).Load(alias) })
			if err != nil || got != srcs[aliases[alias]] {
				rec.Violate("compiled-loader-names", "loader-read-back-differs-alias",
					fmt.Sprintf("the file written by SaveCompiled for %q (a template registered under a name it does not carry) is not read back: Load gave %s (err=%v)", alias, core.Q(core.Trunc(got, 100)), err),
					map[string]any{"alias": alias, "source": core.Trunc(srcs[aliases[alias]], 500)}, "")
				return
			}
		}
	}
	if len(twins) > 0 {
		var bad string
		panicked, site, val, stack := core.Guard(func() {
			b := twig.New()
			b.RegisterLoader(twig.NewCompiledLoader(dir))
			for _, n := range twins {
				rec.Count("loader-name-twins", 1)
				got, err := twig.NewCompiledLoader(dir).Load(n)
				if err != nil || got != srcs[n] {
					bad = fmt.Sprintf("CompiledLoader.Load(%q) gave %s (err=%v) after SaveCompiled of %d names; its source is %s", n, core.Q(core.Trunc(got, 120)), err, len(srcs), core.Q(srcs[n]))
					return
				}
				out, err := b.Render(n, nil)
				if err != nil || out != c02Marker(n)+"2" {
					bad = fmt.Sprintf("template %q read back through the compiled loader renders %s (err=%v), its source renders %s", n, core.Q(core.Trunc(out, 120)), err, core.Q(c02Marker(n)+"2"))
					return
				}
			}
		})
		if panicked {
			rec.Violate("panic", "panic@"+site, "reading compiled files back panicked: "+val, cs, stack)
			return
		}
		if bad != "" {
			rec.Violate("compiled-loader-names", "loader-read-back-differs", bad, map[string]any{"names_saved": sortedKeys(srcs), "twins": twins}, "")
			return
		}
	}
	if viaLoader {
		// a second save of a name whose template has changed since the first: the file holds what the engine has now
		var bad string
		panicked, site, val, stack := core.Guard(func() {
			cl := twig.NewCompiledLoader(dir)
			for i, n := range sortedKeys(srcs) {
				if i%4 != 0 || strings.Contains(n, "/") {
					continue
				}
				next := "RESAVED<" + n + ">{{ 1 + 1 }}"
				if err := a.RegisterString(n, next); err != nil {
					bad = fmt.Sprintf("RegisterString(%q) failed: %v", n, err)
					return
				}
				if err := cl.SaveCompiled(a, n); err != nil {
					bad = fmt.Sprintf("second SaveCompiled(%q) failed: %v", n, err)
					return
				}
				rec.Count("second-saves", 1)
				got, err := twig.NewCompiledLoader(dir).Load(n)
				if err != nil || got != next {
					bad = fmt.Sprintf("%q was registered again with another source and saved again; the compiled loader reads back %s (err=%v), the engine holds %s", n, core.Q(core.Trunc(got, 120)), err, core.Q(next))
					return
				}
			}
		})
		if panicked {
			rec.Violate("panic", "panic@"+site, "saving a changed template again panicked: "+val, cs, stack)
			return
		}
		if bad != "" {
			rec.Violate("compiled-loader-names", "second-save-not-read-back", bad, map[string]any{"names_saved": sortedKeys(srcs)}, "")
			return
		}
	}
	if rec.WantSample(class) {
		rec.Sample(class, map[string]any{"render": entry, "templates": len(srcs), "total_source_bytes": total, "via_compiled_loader": viaLoader, "name_twins": twins})
	}
}
