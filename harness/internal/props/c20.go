package props

import (
	"fmt"
	randv2 "math/rand/v2"
	"reflect"
	"runtime"
	"strings"
	"sync"
	"time"

	"github.com/semihalev/twig"

	"verifharness/internal/core"
)

// C20 — attribute access returns the right member whatever was looked up before.
type c20 struct{ base }

func init() {
	Register(&c20{base{
		id: "C20", level: "exploration",
		technique: "reference-by-direct-reflection monitor over lookup histories on a hand-written type family and bulk reflect.StructOf types, interleaved with cache floods (> 1000 fresh (type, name) pairs) and re-checks of every earlier pair; attribute-cache size observed through a hook; some histories run from 8 goroutines under -race",
		rule: "case = history: check every (value, name) of the family (structs with value/pointer receivers, embedded structs one and two levels deep, embedded pointers incl. nil, shadowed promoted fields, unexported fields, the same field names at different indices in different types, typed / untyped / named maps, int-keyed maps, pointers, nil), flood the attribute cache with 1200-2500 new pairs, re-check, repeat with skewed access frequencies. " +
			"Every member holds a unique marker, so a wrong member is visible in the printed bytes. Expected value: FieldByName / MethodByName on the dynamic type by the harness. Non-trivial: a history whose flood pushed the cache to its maximum at least once. Distinct = distinct history (seed, index).",
		assumptions: []string{
			"pointer-receiver methods on non-pointer struct values are not asserted (outside T's method set)",
			"only exact-case names and names that do not exist; methods with arguments or several results are not queried; members hold strings and ints only",
		},
		quick: 160, thorough: 3200, minQuick: 48, minThorough: 1500,
	}})
}

func (p *c20) Shards(string) int                  { return 16 }
func (p *c20) CaseTimeoutSec(string) int          { return 240 }
func (p *c20) RaceCase(idx int, tier string) bool { return idx%6 == 0 }
func (p *c20) RequiredCounters(string) []string {
	return []string{"lookups-checked", "floods", "cache-reached-max", "promoted-field-lookups", "typed-map-lookups", "method-lookups"}
}
func (p *c20) ClassifyRace(report string) (string, bool, string) {
	if !strings.Contains(report, "github.com/semihalev/twig.") {
		return "race:harness", false, "harness"
	}
	m := reRaceFrame.FindAllStringSubmatch(report, 2)
	var fns []string
	for _, x := range m {
		fns = append(fns, strings.TrimPrefix(x[1], "github.com/semihalev/twig."))
	}
	return "race:" + strings.Join(fns, "|"), true, "data race in attribute lookup between " + strings.Join(fns, " and ")
}

// ---- hand-written family; every member carries a unique marker
type A1 struct {
	Name   string
	Count  int
	hidden string
}
type A2 struct {
	Count int
	Name  string
	Extra string
}
type A3 struct {
	Pad1, Pad2, Pad3 string
	Name             string
}
type Emb1 struct {
	A1
	Extra string
}
type Emb2 struct {
	Extra string
	Lead  int
	A2
}
type Deep2 struct {
	Top string
	Emb1
}
type Shadow struct {
	A1
	Name string
}
type PEmb struct {
	Tag string
	*A1
}
type M1 struct{ V string }

func (m M1) Val() string          { return "M1.Val:" + m.V }
func (m *M1) PVal() string        { return "M1.PVal:" + m.V }
func (m M1) Num() int             { return 4201 }
func (m M1) WithArg(a int) string { return "never" }

type M2 struct {
	V    string
	Name string
}

func (m M2) Val() string   { return "M2.Val:" + m.V }
func (m M2) Other() string { return "M2.Other:" + m.V }

type EmbM struct {
	Z string
	M1
}
type NamedMap map[string]string
type NamedIface map[string]interface{}

type c20Item struct {
	label string
	val   interface{}
	names []string
	kind  string // struct | map | intmap
}

// fields whose named types print themselves: the member is the value of that type, not a bare int / string / bool / float
type c20Level int

func (l c20Level) String() string { return []string{"low", "mid", "high"}[int(l)%3] }

type c20Label string

func (l c20Label) String() string { return "label<" + string(l) + ">" }

type c20Flag bool

func (f c20Flag) String() string {
	if f {
		return "ON"
	}
	return "OFF"
}

type c20Ratio float64

func (r c20Ratio) String() string { return fmt.Sprintf("%.0f%%", float64(r)*100) }

type Typed struct {
	Level c20Level
	Label c20Label
	On    c20Flag
	Ratio c20Ratio
	Plain int
}
type EmbTyped struct {
	Typed
	Extra string
}

// c20ErrHolder has zero-argument methods whose one result is an error value: the value of such an attribute is that error
// (it prints as its text), like any other method result
type c20ErrHolder struct{ Name string }

func (h c20ErrHolder) Err() error   { return fmt.Errorf("disk full on %s", h.Name) }
func (h *c20ErrHolder) PErr() error { return fmt.Errorf("pointer disk full on %s", h.Name) }

// a field promoted from an embedded struct whose type is a pointer to a struct that prints itself (pointer receiver): the
// attribute's value is that pointer
type c20Target struct{ Host string }

func (t *c20Target) String() string { return "url:" + t.Host }

type c20Links struct {
	Link *c20Target
	Note string
}
type c20Page struct {
	c20Links
	Title string
}
type c20PPage struct {
	*c20Links
	Title string
}

type c20M1Ptr *M1
type c20Emb1Ptr *Emb1

func c20Family() []c20Item {
	a1 := A1{"A1.Name", 1101, "A1.hidden"}
	a2 := A2{1202, "A2.Name", "A2.Extra"}
	a3 := A3{"p1", "p2", "p3", "A3.Name"}
	e1 := Emb1{A1{"Emb1.A1.Name", 1301, "h"}, "Emb1.Extra"}
	e2 := Emb2{"Emb2.Extra", 1402, A2{1403, "Emb2.A2.Name", "Emb2.A2.Extra"}}
	d2 := Deep2{"Deep2.Top", Emb1{A1{"Deep2.Emb1.A1.Name", 1501, "h"}, "Deep2.Emb1.Extra"}}
	sh := Shadow{A1{"Shadow.A1.Name", 1601, "h"}, "Shadow.Name"}
	pe := PEmb{"PEmb.Tag", &A1{"PEmb.A1.Name", 1701, "h"}}
	pn := PEmb{"PEmbNil.Tag", nil}
	m1 := M1{"m1v"}
	m2 := M2{"m2v", "M2.Name"}
	em := EmbM{"EmbM.Z", M1{"embm1v"}}
	var nilA1 *A1
	sNames := []string{"Name", "Count", "Extra", "hidden", "Top", "Tag", "Lead", "Val", "PVal", "Num", "Other", "Z", "V", "Missing", "Pad2", "A1x"}
	ty := Typed{Level: 2, Label: "gold", On: true, Ratio: 0.25, Plain: 7}
	ety := EmbTyped{Typed{Level: 1, Label: "tin", On: false, Ratio: 0.5, Plain: 8}, "EmbTyped.Extra"}
	tNames := []string{"Level", "Label", "On", "Ratio", "Plain", "Extra", "Missing"}
	items := []c20Item{
		{"Typed", ty, tNames, "struct"}, {"*Typed", &ty, tNames, "struct"}, {"EmbTyped", ety, tNames, "struct"}, {"*EmbTyped", &ety, tNames, "struct"},
		{"A1", a1, sNames, "struct"}, {"*A1", &a1, sNames, "struct"}, {"A2", a2, sNames, "struct"}, {"*A2", &a2, sNames, "struct"}, {"A3", a3, sNames, "struct"},
		{"Emb1", e1, sNames, "struct"}, {"*Emb1", &e1, sNames, "struct"}, {"Emb2", e2, sNames, "struct"}, {"*Emb2", &e2, sNames, "struct"}, {"Deep2", d2, sNames, "struct"}, {"*Deep2", &d2, sNames, "struct"},
		{"Shadow", sh, sNames, "struct"}, {"PEmb", pe, sNames, "struct"}, {"*PEmb", &pe, sNames, "struct"}, {"PEmbNil", pn, sNames, "struct"}, {"*PEmbNil", &pn, sNames, "struct"},
		{"M1", m1, sNames, "struct"}, {"*M1", &m1, sNames, "struct"}, {"M2", m2, sNames, "struct"}, {"*M2", &m2, sNames, "struct"}, {"EmbM", em, sNames, "struct"}, {"*EmbM", &em, sNames, "struct"},
		{"ErrHolder", c20ErrHolder{Name: "eh"}, []string{"Name", "Err", "Missing"}, "struct"}, {"*ErrHolder", &c20ErrHolder{Name: "peh"}, []string{"Name", "Err", "PErr"}, "struct"},
		{"PageWithPromotedPtr", c20Page{c20Links{&c20Target{"a.example"}, "n1"}, "t1"}, []string{"Link", "Note", "Title", "Missing"}, "struct"},
		{"*PageWithPromotedPtr", &c20Page{c20Links{&c20Target{"b.example"}, "n2"}, "t2"}, []string{"Link", "Note", "Title"}, "struct"},
		{"PageViaEmbeddedPtr", c20PPage{&c20Links{&c20Target{"c.example"}, "n3"}, "t3"}, []string{"Link", "Note", "Title"}, "struct"},
		{"PageNilLink", c20Page{c20Links{nil, "n4"}, "t4"}, []string{"Note", "Title"}, "struct"},
		{"nil*A1", nilA1, []string{"Name", "Count"}, "struct"}, {"named-ptr-M1", c20M1Ptr(&m1), sNames, "struct"}, {"named-ptr-Emb1", c20Emb1Ptr(&e1), sNames, "struct"},
		{"map-iface", map[string]interface{}{"Name": "mi.Name", "k": "mi.k", "Count": 2101, "a b": "mi.ab"}, []string{"Name", "k", "Count", "Missing", "a b"}, "map"},
		{"map-string", map[string]string{"Name": "ms.Name", "k": "ms.k"}, []string{"Name", "k", "Missing"}, "map"},
		{"map-int", map[string]int{"Count": 2301, "k": 2302}, []string{"Count", "k", "Missing"}, "map"},
		{"named-map", NamedMap{"Name": "nm.Name", "z": "nm.z"}, []string{"Name", "z", "Missing"}, "map"},
		{"named-iface", NamedIface{"Name": "ni.Name", "n": 2501}, []string{"Name", "n", "Missing"}, "map"},
		{"ptr-map", &map[string]interface{}{"Name": "pm.Name"}, []string{"Name"}, "ptrmap"},
		{"int-keys", map[int]string{1: "ik.1", 2: "ik.2", 30: "ik.30"}, []string{"1", "2", "30", "4"}, "intmap"},
	}
	return items
}

// refAttr: expected printed text for x.name by direct reflection. assert=false when the statement does not fix it.
func refAttr(x interface{}, name string) (want string, assert bool) {
	v := reflect.ValueOf(x)
	if !v.IsValid() {
		return "", true
	}
	orig := v
	if v.Kind() == reflect.Ptr {
		if v.IsNil() {
			return "", true
		}
		v = v.Elem()
	}
	switch v.Kind() {
	case reflect.Map:
		if v.Type().Key().Kind() != reflect.String {
			return "", false
		}
		mv := v.MapIndex(reflect.ValueOf(name).Convert(v.Type().Key()))
		if !mv.IsValid() {
			return "", true
		}
		return fmt.Sprint(mv.Interface()), true
	case reflect.Struct:
		if sf, ok := v.Type().FieldByName(name); ok {
			if sf.PkgPath != "" {
				return "", true // unexported: there is no such exported field
			}
			// walk the index path; a nil embedded pointer means there is no value
			cur := v
			for _, i := range sf.Index {
				if cur.Kind() == reflect.Ptr {
					if cur.IsNil() {
						return "", true
					}
					cur = cur.Elem()
				}
				cur = cur.Field(i)
			}
			return fmt.Sprint(cur.Interface()), true
		}
		// methods of the dynamic type
		if m, ok := orig.Type().MethodByName(name); ok {
			if m.Type.NumIn() != 1 || m.Type.NumOut() != 1 {
				return "", false
			}
			// promoted through a nil embedded pointer would panic; not generated
			out := orig.Method(m.Index).Call(nil)
			return fmt.Sprint(out[0].Interface()), true
		}
		if orig.Kind() != reflect.Ptr || orig.Type() != reflect.PtrTo(v.Type()) {
			if _, ok := reflect.PtrTo(v.Type()).MethodByName(name); ok {
				// pointer-receiver method on a value, or any method of T reached through a named pointer type (type P *T has
				// no methods of its own): not asserted
				return "", false
			}
		}
		return "", true
	}
	return "", true
}

type c20Lookup struct {
	item c20Item
	name string
}

func (p *c20) check(rec *core.Recorder, e *twig.Engine, lk c20Lookup, phase string) bool {
	var src string
	ctx := map[string]interface{}{"x": lk.item.val}
	form := "dot"
	switch lk.item.kind {
	case "intmap":
		src = "[{{ x[" + lk.name + "] }}]"
		form = "index"
	case "map":
		if strings.Contains(lk.name, " ") || len(lk.name)%2 == 0 {
			src = "[{{ x['" + lk.name + "'] }}]"
			form = "index"
		} else {
			src = "[{{ x." + lk.name + " }}]"
		}
	default:
		src = "[{{ x." + lk.name + " }}]"
	}
	var want string
	assert := true
	if lk.item.kind == "intmap" {
		m := lk.item.val.(map[int]string)
		var k int
		fmt.Sscan(lk.name, &k)
		want = m[k]
	} else {
		want, assert = refAttr(lk.item.val, lk.name)
	}
	var out string
	var err error
	panicked, site, val, stack := core.Guard(func() {
		var t *twig.Template
		t, err = e.ParseTemplate(src)
		if err == nil {
			out, err = t.Render(ctx)
		}
	})
	rec.Count("lookups-checked", 1)
	v := reflect.ValueOf(lk.item.val)
	if v.IsValid() && v.Kind() == reflect.Ptr && !v.IsNil() {
		v = v.Elem()
	}
	if v.IsValid() && v.Kind() == reflect.Struct {
		if sf, ok := v.Type().FieldByName(lk.name); ok && len(sf.Index) > 1 {
			rec.Count("promoted-field-lookups", 1)
		}
		if _, ok := reflect.TypeOf(lk.item.val).MethodByName(lk.name); ok {
			rec.Count("method-lookups", 1)
		}
	}
	if v.IsValid() && v.Kind() == reflect.Map && v.Type() != reflect.TypeOf(map[string]interface{}{}) {
		rec.Count("typed-map-lookups", 1)
	}
	cs := map[string]any{"value": lk.item.label, "go_type": fmt.Sprintf("%T", lk.item.val), "name": lk.name, "template": src, "phase": phase, "form": form}
	if panicked {
		rec.Violate("panic", "panic@"+site, "engine panicked: "+val, cs, stack)
		return false
	}
	if !assert {
		// the lookup is performed (it is part of the history and may populate the cache) but its result is not judged
		rec.Count("not-asserted", 1)
		return true
	}
	if err != nil || out != "["+want+"]" {
		rec.Violate("reflection-reference", fmt.Sprintf("wrong-member:%s.%s", lk.item.label, lk.name),
			fmt.Sprintf("%s on %s (%T) printed %q (err=%v) in phase %q; direct reflection gives %q", src, lk.item.label, lk.item.val, out, err, phase, "["+want+"]"), cs, "")
		return false
	}
	return true
}

// otherForms touches the members of the family through forms that are not plain attribute reads.
func (p *c20) otherForms(rec *core.Recorder, e *twig.Engine, all []c20Lookup, r *core.Rand) {
	forms := []string{"{{ x.%s() }}", "{{ x.%s is defined ? 1 : 0 }}", "{% if x.%s %}y{% endif %}", "{{ x.%s|default('d') }}", "{{ x['%s'] }}", "{{ x.%s(1) }}", "{% for i in x.%s %}{% endfor %}", "{{ x.%s.Nope }}", "{% set q = x.%s %}"}
	for _, i := range r.Perm(len(all)) {
		lk := all[i]
		if lk.item.kind == "intmap" || strings.ContainsAny(lk.name, " '") {
			continue
		}
		names := []string{lk.name}
		if r.P(1, 3) {
			names = append(names, strings.ToLower(lk.name), strings.ToUpper(lk.name))
		}
		for _, n := range names {
			src := fmt.Sprintf(forms[r.Intn(len(forms))], n)
			if r.P(1, 3) {
				// ... or a template that runs below `include ... sandboxed` on an engine of its own with a security policy
				core.Guard(func() {
					se := twig.New()
					se.EnableSandbox(twig.NewDefaultSecurityPolicy())
					se.RegisterString("w", "{{ x."+n+" }}")
					se.RegisterString("outer", "{% include 'w' sandboxed %}")
					se.Render("outer", map[string]interface{}{"x": lk.item.val})
				})
				rec.Count("sandboxed-first-lookups", 1)
				continue
			}
			core.Guard(func() {
				if t, err := e.ParseTemplate(src); err == nil {
					t.Render(map[string]interface{}{"x": lk.item.val})
				}
			})
			rec.Count("other-form-lookups", 1)
		}
	}
}

var c20FieldPool = []string{"Alpha", "Beta", "Gamma", "Delta", "Eps", "Zeta", "Eta", "Theta", "Iota", "Kappa", "Name", "Count", "Extra"}

// flood builds n fresh struct types (distinct layouts sharing field names) and looks every field up.
func (p *c20) flood(rec *core.Recorder, e *twig.Engine, r *core.Rand, floodID, nTypes int, keep *[]c20Lookup) {
	for t := 0; t < nTypes; t++ {
		perm := r.Perm(len(c20FieldPool))
		nf := r.Range(3, 6)
		fields := []reflect.StructField{{Name: fmt.Sprintf("U%d_%d_%d", floodID, t, r.Intn(1<<30)), Type: reflect.TypeOf("")}}
		for i := 0; i < nf; i++ {
			ft := reflect.TypeOf("")
			if i%3 == 2 {
				ft = reflect.TypeOf(0)
			}
			fields = append(fields, reflect.StructField{Name: c20FieldPool[perm[i]], Type: ft})
		}
		// shuffle field order so that equal names sit at different indices
		for i := len(fields) - 1; i > 0; i-- {
			j := r.Intn(i + 1)
			fields[i], fields[j] = fields[j], fields[i]
		}
		st := reflect.StructOf(fields)
		v := reflect.New(st).Elem()
		var names []string
		for i, f := range fields {
			if f.Type.Kind() == reflect.String {
				v.Field(i).SetString(fmt.Sprintf("F%d.T%d.%s", floodID, t, f.Name))
			} else {
				v.Field(i).SetInt(int64(floodID*1000000 + t*100 + i))
			}
			names = append(names, f.Name)
		}
		var val interface{} = v.Interface()
		if t%3 == 0 {
			pv := reflect.New(st)
			pv.Elem().Set(v)
			val = pv.Interface()
		}
		item := c20Item{label: fmt.Sprintf("StructOf#%d.%d", floodID, t), val: val, names: names, kind: "struct"}
		for _, n := range names {
			lk := c20Lookup{item, n}
			if !p.check(rec, e, lk, fmt.Sprintf("flood %d", floodID)) {
				return
			}
			if keep != nil && t%17 == 0 {
				*keep = append(*keep, lk)
			}
		}
		// a name the type does not have
		p.check(rec, e, c20Lookup{item, "Nope"}, fmt.Sprintf("flood %d", floodID))
	}
	rec.Count("floods", 1)
	size, max := twig.VerifAttrCacheStats()
	rec.Max("max:attr-cache-size", size)
	if size >= max-max/10 {
		rec.Count("cache-reached-max", 1)
	}
	if size > max {
		rec.Violate("cache-bound", "attr-cache-over-max", fmt.Sprintf("attribute cache holds %d entries, more than its maximum %d", size, max), nil, "")
	}
}

// values whose method results point into (or alias) the receiver: a result obtained from one value must stay what it was
// while the same attribute is looked up on other values of the type
type c20Person struct{ Name string }
type c20Acct struct {
	Holder c20Person
	Tags   []string
}

func (a *c20Acct) Primary() *c20Person { return &a.Holder }
func (a c20Acct) Copy() c20Person      { return a.Holder }
func (a *c20Acct) TagList() []string   { return a.Tags }
func (a *c20Acct) Self() *c20Acct      { return a }

func (p *c20) held(rec *core.Recorder, e *twig.Engine, phase string) bool {
	a := c20Acct{Holder: c20Person{"ann"}, Tags: []string{"a1", "a2"}}
	b := c20Acct{Holder: c20Person{"bob"}, Tags: []string{"b1"}}
	ctx := map[string]interface{}{"a": a, "b": b, "pa": &a, "pb": &b}
	cases := [][2]string{
		{"{% set p = a.Primary %}{% set q = b.Primary %}{{ p.Name }}|{{ q.Name }}|{{ a.Primary.Name }}", "ann|bob|ann"},
		{"{% for x in [a.Primary, b.Primary, a.Primary] %}{{ x.Name }},{% endfor %}", "ann,bob,ann,"},
		{"{% set p = pa.Primary %}{% set q = pb.Primary %}{{ p.Name }}|{{ q.Name }}|{{ pa.Primary.Name }}", "ann|bob|ann"},
		{"{% set t = a.TagList %}{% set u = b.TagList %}{{ t|join('+') }}|{{ u|join('+') }}", "a1+a2|b1"},
		{"{% set s = a.Self %}{% set t = b.Self %}{{ s.Holder.Name }}|{{ t.Holder.Name }}|{{ s.Copy.Name }}", "ann|bob|ann"},
		{"{% set c = a.Copy %}{% set d = b.Copy %}{{ c.Name }}|{{ d.Name }}|{{ pa.Copy.Name }}{{ pb.Copy.Name }}", "ann|bob|annbob"},
	}
	for _, c := range cases {
		rec.Count("held-result-checks", 1)
		var out string
		var err error
		panicked, site, val, stack := core.Guard(func() {
			var t *twig.Template
			t, err = e.ParseTemplate(c[0])
			if err == nil {
				out, err = t.Render(ctx)
			}
		})
		cs := map[string]any{"template": c[0], "phase": phase}
		if panicked {
			rec.Violate("panic", "panic@"+site, "engine panicked: "+val, cs, stack)
			return false
		}
		if err != nil || out != c[1] {
			rec.Violate("reflection-reference", "held-result-changed:"+core.SigHash("h", c[0]),
				fmt.Sprintf("%s printed %q (err=%v) in phase %q; the members of the two values are %q", c[0], out, err, phase, c[1]), cs, "")
			return false
		}
	}
	return true
}

// mapForms: x.key and x['key'] (and x[1] for the key "1") on every map shape give the value stored under that key, or nothing
func (p *c20) mapForms(rec *core.Recorder, e *twig.Engine, phase string) bool {
	base := map[string]string{"name": "v-name", "k": "v-k", "1": "v-one", "65": "v-65", "A": "v-A", "a b": "v-ab"}
	mi, ms, mn, mx := map[string]interface{}{}, map[string]string{}, NamedMap{}, map[interface{}]interface{}{}
	for k, v := range base {
		mi[k], ms[k], mn[k], mx[k] = v, v, v, v
	}
	shapes := []struct {
		label string
		val   interface{}
	}{{"map[string]interface{}", mi}, {"map[string]string", ms}, {"NamedMap", mn}, {"map[interface{}]interface{}", mx}, {"*map[string]interface{}", &mi}, {"*map[string]string", &ms}, {"*NamedMap", &mn}}
	type form struct{ src, key string }
	forms := []form{{"x.name", "name"}, {"x['name']", "name"}, {"x.k", "k"}, {"x[\"k\"]", "k"}, {"x['1']", "1"}, {"x[1]", "1"}, {"x[i]", "1"}, {"x[65]", "65"}, {"x['A']", "A"}, {"x.A", "A"}, {"x['a b']", "a b"},
		{"x.missing", "missing"}, {"x['missing']", "missing"}, {"x[2]", "2"}, {"x[key]", "k"}, {"x[66]", "66"},
		{"x['01']", "01"}, {"x['1.0']", "1.0"}, {"x['+1']", "+1"}, {"x['1e0']", "1e0"}, {"x[' 1']", " 1"}, {"x['065']", "065"}, {"x[k01]", "01"}, {"x['a']", "a"}, {"x['NAME']", "NAME"}, {"x.Name", "Name"}}
	for _, sh := range shapes {
		for _, f := range forms {
			if sh.label == "map[interface{}]interface{}" && !strings.ContainsAny(f.src, "'\".") {
				continue // in a map keyed by interface{} the number 1 and the string "1" are different keys
			}
			rec.Count("map-form-checks", 1)
			src := "[{{ " + f.src + " }}]"
			want := "[" + base[f.key] + "]"
			var out string
			var err error
			panicked, site, val, stack := core.Guard(func() {
				var t *twig.Template
				t, err = e.ParseTemplate(src)
				if err == nil {
					out, err = t.Render(map[string]interface{}{"x": sh.val, "i": 1, "key": "k", "k01": "01"})
				}
			})
			cs := map[string]any{"template": src, "go_type": sh.label, "phase": phase}
			if panicked {
				rec.Violate("panic", "panic@"+site, "engine panicked: "+val, cs, stack)
				return false
			}
			if err != nil || out != want {
				rec.Violate("reflection-reference", "wrong-map-entry:"+sh.label+":"+f.src,
					fmt.Sprintf("%s on a %s printed %q (err=%v) in phase %q; the map holds %q under %q", src, sh.label, out, err, phase, base[f.key], f.key), cs, "")
				return false
			}
		}
	}
	return true
}

func (p *c20) Run(rec *core.Recorder, seed uint64, idx int, tier string) {
	r := core.NewRand("C20", seed, idx)
	e := twig.New()
	fam := c20Family()
	var all []c20Lookup
	for _, it := range fam {
		for _, n := range it.names {
			all = append(all, c20Lookup{it, n})
		}
	}
	pass := func(phase string, order []int) bool {
		for _, i := range order {
			if !p.check(rec, e, all[i], phase) {
				return false
			}
		}
		return true
	}
	if idx%2 == 0 && !p.held(rec, e, "cold, before anything else") {
		return
	}
	if idx%3 == 1 {
		// the first contact with a (type, name) pair is some other way of writing the name down: call syntax, tests, defaults,
		// conditions, other letter cases. None of these is judged (some are errors by definition); they are history
		p.otherForms(rec, e, all, r)
	}
	if !pass("cold", r.Perm(len(all))) {
		return
	}
	if !p.held(rec, e, "after the cold pass") {
		return
	}
	if !p.mapForms(rec, e, "after the cold pass") {
		return
	}
	var kept []c20Lookup
	rounds := r.Range(2, 4)
	reached := false
	for round := 1; round <= rounds; round++ {
		// skew access frequency: hammer a subset so that LRU/LFU ordering differs
		hot := r.Perm(len(all))[:len(all)/4]
		for rep := 0; rep < r.Range(1, 6); rep++ {
			if !pass(fmt.Sprintf("hot before flood %d", round), hot) {
				return
			}
		}
		before := rec.Counters["cache-reached-max"]
		p.flood(rec, e, r, idx*10+round, r.Range(260, 520), &kept)
		if rec.Counters["cache-reached-max"] > before {
			reached = true
		}
		if !pass(fmt.Sprintf("after flood %d", round), r.Perm(len(all))) {
			return
		}
		for _, lk := range kept {
			if !p.check(rec, e, lk, fmt.Sprintf("flood survivors after flood %d", round)) {
				return
			}
		}
		if !p.held(rec, e, fmt.Sprintf("after flood %d", round)) {
			return
		}
	}
	if idx%6 == 0 {
		// concurrent lookups sharing the process-wide cache (meaningful under -race)
		var wg sync.WaitGroup
		recs := make([]*core.Recorder, 8)
		// widen the windows between the cache's lock sections (hit: read lock -> write lock; miss: lookup -> insert)
		twig.VerifYield = func(point string) {
			if strings.HasPrefix(point, "attr.") && randv2.Uint32N(4) == 0 {
				if randv2.Uint32N(3) == 0 {
					time.Sleep(time.Duration(20+randv2.Uint32N(200)) * time.Microsecond)
				} else {
					runtime.Gosched()
				}
			}
		}
		for g := 0; g < 8; g++ {
			recs[g] = core.NewRecorder("C20", seed, tier)
			wg.Add(1)
			go func(g int) {
				defer wg.Done()
				rr := core.NewRand("C20g", seed, idx*8+g)
				eg := twig.New()
				if g%2 == 1 {
					// evictors: new (type, attribute) pairs into the full cache while the others look the family up
					p.flood(recs[g], eg, rr, idx*100+g, 150, nil)
				}
				for pass := 0; pass < 2; pass++ {
					for _, i := range rr.Perm(len(all)) {
						if !p.check(recs[g], eg, all[i], "concurrent") {
							return
						}
					}
				}
				p.flood(recs[g], eg, rr, idx*100+50+g, 60, nil)
			}(g)
		}
		wg.Wait()
		twig.VerifYield = nil
		for _, gr := range recs {
			for k, v := range gr.Counters {
				if !strings.HasPrefix(k, "max:") {
					rec.Counters[k] += v
				}
			}
			rec.Violations = append(rec.Violations, gr.Violations...)
			rec.ViolCount += gr.ViolCount
		}
		rec.Count("concurrent-histories", 1)
	}
	rec.Eval("history", fmt.Sprintf("%d:%d:%d", seed, idx, rounds), reached)
	if rec.WantSample("history") {
		size, max := twig.VerifAttrCacheStats()
		rec.Sample("history", map[string]any{"family_lookups": len(all), "flood_rounds": rounds, "cache_size_after": size, "cache_max": max, "example": "[{{ x.Name }}] on Emb1 -> " + func() string { w, _ := refAttr(fam[5].val, "Name"); return w }()})
	}
}
