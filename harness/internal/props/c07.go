package props

import (
	"encoding/json"
	"fmt"
	"strconv"
	"strings"
	"time"
	"unicode/utf8"

	"github.com/semihalev/twig"

	"verifharness/internal/core"
)

// C07 — the escape filter neutralises every HTML-significant character.
type c07 struct{ base }

func init() {
	Register(&c07{base{
		id: "C07", level: "exploration",
		technique: "independent HTML scanner/decoder monitor over the output of e / escape in seven filter positions and two engine configurations (registered filter, built-in fallback); all BMP code points enumerated",
		rule: "case = (input value, position, filter name, configuration). Inputs: every code point U+0000-U+FFFF (surrogates excluded) alone and between 'a' and 'b', sampled astral code points, all pairs over the specials and reference-forming characters (double-escaping), invalid UTF-8, lengths 0 / 1 KiB / 1 MiB, non-string values. " +
			"Checked: no raw < > \" ' in the output, every & starts a character reference a correct escaper may emit, decoding gives back the input bytes, e == escape, all positions agree. Non-trivial: input contains a special, a non-ASCII or an invalid byte. Distinct = distinct (input, position, configuration).",
		assumptions: []string{
			"the spelling of the references is not prescribed (named, decimal and hex forms are accepted)",
			"text(v) of a non-string value is what {{ v }} prints",
		},
		quick: 1024 + 420 + 20000, thorough: 1024 + 420 + 800000, minQuick: 2000, minThorough: 30000,
	}})
}

// value kinds whose textual form carries markup although their reflect.Kind is numeric, bool or struct
type c07Op int

func (o c07Op) String() string { return []string{"=", "<", "&&", "'"}[int(o)%4] }

type c07Flag bool

func (f c07Flag) String() string { return "<flag \"on\">" }

type c07Ratio float64

func (f c07Ratio) String() string { return "3<4 & 5>4" }

type c07Tag struct{ N string }

func (t c07Tag) String() string { return "<" + t.N + " class='x'>" }

type c07Str string
type c07Strs []string
type c07Both struct{ N int }

func (b c07Both) String() string { return "a<b" }
func (b c07Both) Error() string  { return "e>f" }

type template07 string

func (t template07) String() string { return string(t) + "&" }

func (p *c07) RequiredCounters(string) []string {
	return []string{"codepoints-checked", "fallback-config-checks", "position:apply", "position:macro", "position:include"}
}

// scanDecode validates the escaped output and returns the decoded text.
func scanDecode(out string) (string, error) {
	var b strings.Builder
	for i := 0; i < len(out); {
		c := out[i]
		switch c {
		case '<', '>', '"', '\'':
			return "", fmt.Errorf("raw %q at byte %d", c, i)
		case '&':
			j := strings.IndexByte(out[i:], ';')
			if j < 0 || j > 12 {
				return "", fmt.Errorf("& at byte %d does not start a character reference", i)
			}
			ref := out[i+1 : i+j]
			switch {
			case ref == "amp":
				b.WriteByte('&')
			case ref == "lt":
				b.WriteByte('<')
			case ref == "gt":
				b.WriteByte('>')
			case ref == "quot":
				b.WriteByte('"')
			case ref == "apos":
				b.WriteByte('\'')
			case strings.HasPrefix(ref, "#x") || strings.HasPrefix(ref, "#X"):
				n, err := strconv.ParseUint(ref[2:], 16, 32)
				if err != nil {
					return "", fmt.Errorf("bad reference &%s;", ref)
				}
				if !strings.ContainsRune("<>&\"'", rune(n)) {
					return "", fmt.Errorf("reference &%s; at byte %d replaces %q, which is not one of < > & \" ' (other bytes must pass through unchanged)", ref, i, rune(n))
				}
				b.WriteRune(rune(n))
			case strings.HasPrefix(ref, "#"):
				n, err := strconv.ParseUint(ref[1:], 10, 32)
				if err != nil {
					return "", fmt.Errorf("bad reference &%s;", ref)
				}
				if !strings.ContainsRune("<>&\"'", rune(n)) {
					return "", fmt.Errorf("reference &%s; at byte %d replaces %q, which is not one of < > & \" ' (other bytes must pass through unchanged)", ref, i, rune(n))
				}
				b.WriteRune(rune(n))
			default:
				return "", fmt.Errorf("& at byte %d starts the unknown reference &%s;", i, ref)
			}
			i += j + 1
			continue
		default:
			b.WriteByte(c)
		}
		i++
	}
	return b.String(), nil
}

// "after:<filter>" = the escape filter directly behind another built-in filter in one chain; the text that must come back
// is then what {{ v|<filter> }} prints
var c07Positions = []string{"print", "chain-last", "chain-first", "apply", "macro", "include", "loop",
	"after:abs", "after:round", "after:number_format", "after:number_format(1, '<', '&')", "after:trim", "after:default('<d>')", "after:lower", "after:length", "after:first", "after:join('<')", "after:replace({'a': '<'})", "after:nl2br",
	// escaping what is already escaped escapes it again (the text to get back is the output of the first pass)
	"after:e", "after:escape", "after:e|escape", "after:raw|e", "after:upper|upper",
	// "expr:<E>" = the escape filter applied to an expression that has filtered operands, filtered filter arguments or
	// filtered elements of its own; the text that must come back is what {{ E }} prints
	"expr:(v|trim ~ v|lower)", "expr:v|default(v|trim|lower)", "expr:[v|trim, v|upper]|join(' ')", "expr:(true ? v|trim : v|upper)", "expr:{'k': v|trim|lower}.k", "expr:(v|raw ~ (v|trim|upper))|trim", "expr:v|replace({'zz': v|upper})"}

func c07Templates(pos, filter string) map[string]string {
	t := map[string]string{}
	if strings.HasPrefix(pos, "after:") {
		t["main"] = "{{ v|" + strings.TrimPrefix(pos, "after:") + "|" + filter + " }}"
		return t
	}
	if strings.HasPrefix(pos, "expr:") {
		t["main"] = "{{ (" + strings.TrimPrefix(pos, "expr:") + ")|" + filter + " }}"
		return t
	}
	switch pos {
	case "print":
		t["main"] = "{{ v|" + filter + " }}"
	case "chain-last":
		t["main"] = "{{ v|raw|" + filter + " }}"
	case "chain-first":
		t["main"] = "{{ v|" + filter + "|raw }}"
	case "apply":
		t["main"] = "{% apply " + filter + " %}{{ v }}{% endapply %}"
	case "macro":
		t["main"] = "{% macro m(x) %}{{ x|" + filter + " }}{% endmacro %}{{ m(v) }}"
	case "include":
		t["main"] = "{% include 'inc' with {'x': v} only %}"
		t["inc"] = "{{ x|" + filter + " }}"
	default:
		t["main"] = "{% for x in [v] %}{{ x|" + filter + " }}{% endfor %}"
	}
	return t
}

func (p *c07) checkOne(rec *core.Recorder, input interface{}, text string, pos, filter string, fallback bool) bool {
	srcs := c07Templates(pos, filter)
	rec.Count("position:"+pos, 1)
	if strings.HasPrefix(pos, "after:") || strings.HasPrefix(pos, "expr:") {
		preSrc := "{{ v|" + strings.TrimPrefix(pos, "after:") + " }}"
		if strings.HasPrefix(pos, "expr:") {
			preSrc = "{{ " + strings.TrimPrefix(pos, "expr:") + " }}"
		}
		pre := renderFresh(map[string]string{"main": preSrc}, "main", map[string]interface{}{"v": input}, func(e *twig.Engine) {
			if fallback {
				e.VerifUnregisterFilter("e")
				e.VerifUnregisterFilter("escape")
			}
		})
		if pre.Err != nil || pre.Panicked {
			rec.Count("skipped-prefilter-fails", 1)
			return true
		}
		text = pre.Out
	}
	if fallback {
		rec.Count("fallback-config-checks", 1)
	}
	res := renderFresh(srcs, "main", map[string]interface{}{"v": input}, func(e *twig.Engine) {
		if fallback {
			e.VerifUnregisterFilter("e")
			e.VerifUnregisterFilter("escape")
		}
	})
	cs := map[string]any{"input": fmt.Sprintf("%q", core.Trunc(text, 200)), "input_len": len(text), "position": pos, "filter": filter, "fallback_config": fallback, "template": srcs["main"]}
	if res.Panicked {
		rec.Violate("panic", "panic@"+res.Site, "engine panicked: "+res.PanicVal, cs, res.Stack)
		return false
	}
	if res.Err != nil {
		rec.Violate("escape", "escape-error:"+pos, fmt.Sprintf("escaping failed: %v", res.Err), cs, "")
		return false
	}
	dec, err := scanDecode(res.Out)
	cfg := "registered"
	if fallback {
		cfg = "fallback"
	}
	if err != nil {
		rec.Violate("html-scanner", fmt.Sprintf("unescaped:%s:%s", cfg, pos), fmt.Sprintf("output of %s is not neutral: %v; input %q output %q", filter, err, core.Trunc(text, 80), core.Trunc(res.Out, 120)), cs, "")
		return false
	}
	if dec != text {
		i := 0
		for i < len(dec) && i < len(text) && dec[i] == text[i] {
			i++
		}
		rec.Violate("html-decoder", fmt.Sprintf("not-reversible:%s:%s", cfg, pos), fmt.Sprintf("decoding the output of %s does not give back the input (first difference at byte %d): input %q output %q", filter, i, core.Trunc(text, 80), core.Trunc(res.Out, 120)), cs, "")
		return false
	}
	return true
}

func (p *c07) checkValue(rec *core.Recorder, r *core.Rand, class string, input interface{}, text string, all bool) {
	nontrivial := strings.ContainsAny(text, "<>&\"'") || !utf8.ValidString(text)
	for i := 0; i < len(text) && !nontrivial; i++ {
		if text[i] >= 128 {
			nontrivial = true
		}
	}
	rec.Eval(class, class+"\x00"+text, nontrivial)
	if all {
		for _, pos := range c07Positions {
			for _, f := range []string{"e", "escape"} {
				for _, fb := range []bool{false, true} {
					if !p.checkOne(rec, input, text, pos, f, fb) {
						return
					}
				}
			}
		}
		return
	}
	pos := c07Positions[r.Intn(len(c07Positions))]
	f := []string{"e", "escape"}[r.Intn(2)]
	if !p.checkOne(rec, input, text, pos, f, r.P(1, 3)) {
		return
	}
	if rec.WantSample(class) {
		rec.Sample(class, map[string]any{"input": fmt.Sprintf("%q", core.Trunc(text, 100)), "position": pos, "filter": f})
	}
}

func (p *c07) Run(rec *core.Recorder, seed uint64, idx int, tier string) {
	r := core.NewRand("C07", seed, idx)
	// ---- exhaustive BMP: 1024 cases x 64 code points
	if idx < 1024 {
		for cp := idx * 64; cp < idx*64+64; cp++ {
			if cp >= 0xD800 && cp <= 0xDFFF {
				continue
			}
			s := string(rune(cp))
			rec.Count("codepoints-checked", 1)
			p.checkValue(rec, r, "codepoint", s, s, cp < 128 || cp%97 == 0)
			p.checkValue(rec, r, "codepoint-embedded", "a"+s+"b", "a"+s+"b", false)
		}
		return
	}
	idx -= 1024
	// ---- pairs over specials and reference-forming characters
	alpha := []string{"<", ">", "&", "\"", "'", "#", ";", "x", "3", "9", "a", "m", "p", "l", "t", "g", "q", "u", "o", "s"}
	if idx < 400 {
		s := alpha[idx/20] + alpha[idx%20]
		p.checkValue(rec, r, "pairs", s, s, true)
		return
	}
	idx -= 400
	fixed := []string{"", "&amp;", "&lt;script&gt;", "&#39;", "&#x27;", "&amp;amp;", "<a href='x' title=\"y\">&</a>", "\xff<", "a\xc3", "\xe2\x82", "\x00<\x00", "&", "&;", "&#;", "& amp;", "&&&&",
		strings.Repeat("<", 1024), strings.Repeat("<&>\"'x", 150000), strings.Repeat("é", 600), "'\"'\"", "\U0001F600<\U0010FFFF>"}
	if idx < len(fixed)-1 {
		p.checkValue(rec, r, "fixed", fixed[idx], fixed[idx], len(fixed[idx]) < 5000)
		return
	}
	if idx < len(fixed)-1+48 {
		// non-string values: text(v) is what {{ v }} prints (48 >= the number of values below)
		sp := "<p>&'\""
		vals := []interface{}{0, -5, 42, 3.5, -0.25, true, false, nil, int64(1 << 40), 1e6,
			c07Op(1), c07Op(2), c07Flag(true), c07Ratio(1.5), c07Tag{"b"}, &c07Tag{"i"}, c07Str("<typed & 'string'>"), []byte("<bytes&>"), &sp, fmt.Errorf("error <value> & \"text\""),
			[]string{"<a>", "b&c", "'q'"}, []interface{}{"<x>", 1, "\"y\""}, map[string]string{"<k>": "<v>&"}, map[string]interface{}{"k": "<v>"}, [2]string{"<", ">"}, c07Strs{"<s>"},
			map[string]interface{}{"<k>": "v", "a&b": []interface{}{"'"}}, []interface{}{map[string]interface{}{"\"q\"": 1, "k'": "<v>"}}, map[string]interface{}{"plain": map[string]interface{}{"<in>": 1}},
			uint8('<'), int32('&'), struct{ A string }{"<f>"}, time.Duration(90) * time.Second, c07Both{3}, json.Number("1<2"), template07("<t>"),
			float32(1e21), float32(2.5), uint64(1) << 63, uint16(9), 1e21, -1e-7}
		v := vals[(idx-(len(fixed)-1))%len(vals)]
		plain := renderFresh(map[string]string{"main": "{{ v }}"}, "main", map[string]interface{}{"v": v}, nil)
		if plain.Err == nil && !plain.Panicked {
			p.checkValue(rec, r, "non-string", v, plain.Out, true)
		}
		return
	}
	// ---- random strings
	n := []int{1, 2, 3, 5, 8, 20, 100, 1024}[r.Intn(8)]
	var b strings.Builder
	for i := 0; i < n; i++ {
		switch r.Intn(6) {
		case 0:
			b.WriteString(alpha[r.Intn(len(alpha))])
		case 1:
			b.WriteByte(byte(r.Intn(256)))
		case 2:
			b.WriteRune(rune(r.Intn(0x10FFFF)))
		case 3:
			b.WriteString([]string{"&amp;", "&lt;", "&#39;", "&quot;", "&#x3C;", "&nbsp;"}[r.Intn(6)])
		default:
			b.WriteByte("abcdefgh <>&\"'"[r.Intn(14)])
		}
	}
	s := b.String()
	p.checkValue(rec, r, "random", s, s, false)
}
