package props

import (
	"bytes"
	"fmt"
	"math/big"
	"reflect"
	"sort"
	"strings"
	"sync"

	"verifharness/internal/core"
)

// C18 — rendering never modifies the caller's data.
type c18 struct{ base }

func init() {
	Register(&c18{base{
		id: "C18", level: "exploration",
		technique: "deep snapshot diff of the caller's context (values, lengths, spare slice capacity, map key sets, pointer targets, unexported struct fields) before/after every render + second-render equality on shared data + Go race detector as a write detector while two goroutines render shared, read-only-by-contract data",
		rule: "case = template from a bank (every built-in filter and function with arguments, two-filter chains, set of context names, loops with set, include/macro scopes receiving caller containers, array/hash literals embedding caller containers) x a context of nested typed and untyped slices (with 8 spare capacity slots holding sentinels), arrays, maps, structs and pointers. " +
			"Checked: snapshot(before) == snapshot(after); a second render on the same data equals the first; a value bound with set prints the same before and after another filter is applied to it; even-numbered cases run two goroutines on shared data under -race and any race whose location was allocated by the context builder is a write to caller data. " +
			"Non-trivial: the template applies a filter/function to a caller container or assigns a context name. Distinct = distinct (template, context variant).",
		assumptions: []string{
			"races on engine state (not caller data) belong to C02 and are ignored here",
			"user callbacks are not involved; only built-in filters/functions",
		},
		quick: 40000, thorough: 520000, minQuick: 9000, minThorough: 150000,
	}})
}

func (p *c18) Shards(string) int                  { return 16 }
func (p *c18) CaseTimeoutSec(string) int          { return 120 }
func (p *c18) RaceCase(idx int, tier string) bool { return idx%8 == 0 }
func (p *c18) RequiredCounters(string) []string {
	return []string{"snapshots-compared", "second-render-checks", "race-shared-renders"}
}

// ClassifyRace: only races whose memory was allocated by the context builder count.
func (p *c18) ClassifyRace(report string) (string, bool, string) {
	caller := strings.Contains(report, "props.c18Ctx") || strings.Contains(report, "props.c18Spare")
	if !strings.Contains(report, "github.com/semihalev/twig.") {
		return "race:harness", false, "harness"
	}
	m := reRaceFrame.FindStringSubmatch(report)
	fn := "unknown"
	if m != nil {
		fn = strings.TrimPrefix(m[1], "github.com/semihalev/twig.")
	}
	if !caller {
		return "race-engine-state:" + fn, false, "engine-state"
	}
	return "write-to-caller-data:" + fn, true, "the race detector saw engine code (" + fn + ") write to memory allocated by the caller's context while another render was reading it"
}

type c18Struct struct {
	Name  string
	Items []interface{}
	Tags  []string
	Meta  map[string]interface{}
	Ptr   *c18Inner
	priv  []int
}

// a value type whose methods have pointer receivers and change the receiver (a counter, a memoising getter): held by value
// in the caller's data, so whatever a template calls on it must act on a copy
type c18Counter struct {
	Name string
	Seen int
	memo map[string]int
}

func (c *c18Counter) Bump() int {
	c.Seen++
	return c.Seen
}

func (c *c18Counter) Memo() int {
	if c.memo == nil {
		c.memo = map[string]int{}
	}
	c.memo[c.Name]++
	return len(c.memo)
}

type c18Board struct {
	Title    string
	Counters []c18Counter
	Main     c18Counter
}

type c18Inner struct {
	N    int
	List []int
}

// c18Spare returns a slice of length n with 8 spare slots holding sentinels.
func c18Spare(vals ...interface{}) []interface{} {
	full := make([]interface{}, len(vals)+8)
	copy(full, vals)
	for i := len(vals); i < len(full); i++ {
		full[i] = fmt.Sprintf("SPARE%d", i)
	}
	return full[:len(vals)]
}

func c18SpareStr(vals ...string) []string {
	full := make([]string, len(vals)+8)
	copy(full, vals)
	for i := len(vals); i < len(full); i++ {
		full[i] = fmt.Sprintf("SPARE%d", i)
	}
	return full[:len(vals)]
}

func c18SpareInt(vals ...int) []int {
	full := make([]int, len(vals)+8)
	copy(full, vals)
	for i := len(vals); i < len(full); i++ {
		full[i] = -1000 - i
	}
	return full[:len(vals)]
}

func c18Ctx(variant int) map[string]interface{} {
	xs := c18Spare(3, 1, 2, "b", "a")
	if variant%3 == 1 {
		xs = c18Spare("z", "y", "x")
	}
	if variant%3 == 2 {
		xs = c18Spare(5, 4, 3, 2, 1, 0)
	}
	inner := &c18Inner{N: 7, List: c18SpareInt(9, 8, 7)}
	return map[string]interface{}{
		"xs": xs, "ys": c18Spare("p", "q"), "empty": c18Spare(),
		"ss": c18SpareStr("delta", "alpha", "charlie"), "is": c18SpareInt(30, 10, 20), "fs": []float64{2.5, 1.5, 3.5},
		"arr": [3]int{3, 1, 2}, "parr": &[3]string{"c", "a", "b"},
		"m":  map[string]interface{}{"b": 2, "a": 1, "nested": map[string]interface{}{"k": c18Spare(1, 2)}, "list": c18Spare("l1", "l2")},
		"m2": map[string]interface{}{"c": 3, "a": 9},
		"tm": map[string]string{"x": "1", "y": "2"}, "tmi": map[string]int{"one": 1, "two": 2}, "im": map[int]string{2: "two", 1: "one"}, "mii": map[interface{}]interface{}{7: "seven", "k": "v", 2.5: c18Spare(1)},
		"yl":   []interface{}{map[interface{}]interface{}{"title": "t", 1: "one"}, "plain", map[interface{}]interface{}{"nested": map[interface{}]interface{}{"k": "v"}}},
		"ym":   map[string]interface{}{"page": map[interface{}]interface{}{"title": "home", "tags": c18Spare("a", "b")}, "n": 1},
		"nest": c18Spare(c18Spare(2, 1), c18Spare("d", "c"), map[string]interface{}{"q": c18Spare(1)}),
		"st":   c18Struct{Name: "s", Items: c18Spare(2, 1), Tags: c18SpareStr("t2", "t1"), Meta: map[string]interface{}{"k": "v"}, Ptr: inner, priv: []int{1, 2}},
		"pst":  &c18Struct{Name: "ps", Items: c18Spare("b", "a"), Tags: c18SpareStr("u2", "u1"), Meta: map[string]interface{}{"k": c18Spare(1)}, Ptr: inner},
		"s":    "hello world", "n": 5, "pn": inner,
		"bigi": big.NewInt(-5), "bigr": big.NewRat(-1, 3), "bigf": big.NewFloat(-2.5), "nums": map[string]interface{}{"debt": big.NewInt(-7), "rate": big.NewRat(-3, 4)},
		"lazy": map[string]interface{}{"total": func() interface{} { return 42 }, "label": func() string { return "L" }, "both": func() (interface{}, error) { return "B", nil }, "list": []interface{}{func() interface{} { return 1 }}},
		"buf":  bytes.NewBufferString("buffered <fragment>"), "page": map[string]interface{}{"body": bytes.NewBufferString("page body")},
		"parts": []interface{}{bytes.NewBufferString("part one"), bytes.NewBufferString("part two"), "plain"}, "rdr": strings.NewReader("reader text"),
		"pairs": map[string]interface{}{"hello": "Ann", "": "-", "o": "0", " ": "_"},
		"spk":   map[string]interface{}{"": 1, " ": 2, "0": 3, "00": 4, "-1": 5, "k": c18Spare(1)},
		"row":   map[string]interface{}{"pairs": map[string]interface{}{"": "x", "l": "L"}, "spk": map[string]string{"": "e", "0": "z"}},
		// lists and maps that hold typed nil pointers next to ordinary values
		"nl": c18Spare(&c18Inner{N: 1}, (*c18Inner)(nil), "s", (*c18Counter)(nil), nil),
		"nm": map[string]interface{}{"p": (*c18Inner)(nil), "l": c18Spare((*c18Struct)(nil), 2), "q": nil},
		"cs": []c18Counter{{Name: "a"}, {Name: "b", Seen: 4}}, "c1": c18Counter{Name: "c"}, "cm": map[string]c18Counter{"k": {Name: "m"}, "j": {Name: "n"}},
		"board": c18Board{Title: "t", Counters: []c18Counter{{Name: "x"}, {Name: "y"}}, Main: c18Counter{Name: "main"}}, "ca": [2]c18Counter{{Name: "p"}, {Name: "q"}},
	}
}

// snapshot: canonical deep dump using kind-specific getters only.
func c18Snap(v reflect.Value, b *strings.Builder, seen map[uintptr]bool, depth int) {
	if depth > 40 {
		b.WriteString("<deep>")
		return
	}
	if !v.IsValid() {
		b.WriteString("nil")
		return
	}
	switch v.Kind() {
	case reflect.Interface:
		if v.IsNil() {
			b.WriteString("nil")
			return
		}
		c18Snap(v.Elem(), b, seen, depth+1)
	case reflect.Ptr:
		if v.IsNil() {
			b.WriteString("nilptr")
			return
		}
		if seen[v.Pointer()] {
			b.WriteString("<ref>")
			return
		}
		seen[v.Pointer()] = true
		b.WriteString("&")
		c18Snap(v.Elem(), b, seen, depth+1)
	case reflect.Slice:
		if v.IsNil() {
			b.WriteString("nilslice")
			return
		}
		fmt.Fprintf(b, "slice(len=%d,cap=%d)[", v.Len(), v.Cap())
		full := v
		if v.Cap() > v.Len() && v.CanInterface() {
			full = v.Slice(0, v.Cap())
		} else if v.Cap() > v.Len() {
			// unexported: Slice3 is still allowed for reading
			full = v.Slice(0, v.Cap())
		}
		for i := 0; i < full.Len(); i++ {
			if i == v.Len() {
				b.WriteString("|spare:")
			}
			c18Snap(full.Index(i), b, seen, depth+1)
			b.WriteString(",")
		}
		b.WriteString("]")
	case reflect.Array:
		b.WriteString("array[")
		for i := 0; i < v.Len(); i++ {
			c18Snap(v.Index(i), b, seen, depth+1)
			b.WriteString(",")
		}
		b.WriteString("]")
	case reflect.Map:
		if v.IsNil() {
			b.WriteString("nilmap")
			return
		}
		// a map that (by now) contains itself is dumped once per path, not without end
		if seen[v.Pointer()] {
			b.WriteString("<map containing itself>")
			return
		}
		seen[v.Pointer()] = true
		defer delete(seen, v.Pointer())
		var parts []string
		it := v.MapRange()
		for it.Next() {
			var kb, vb strings.Builder
			c18Snap(it.Key(), &kb, seen, depth+1)
			c18Snap(it.Value(), &vb, seen, depth+1)
			parts = append(parts, kb.String()+"=>"+vb.String())
		}
		sort.Strings(parts)
		fmt.Fprintf(b, "map(len=%d){%s}", v.Len(), strings.Join(parts, ";"))
	case reflect.Struct:
		b.WriteString(v.Type().Name() + "{")
		for i := 0; i < v.NumField(); i++ {
			b.WriteString(v.Type().Field(i).Name + ":")
			c18Snap(v.Field(i), b, seen, depth+1)
			b.WriteString(",")
		}
		b.WriteString("}")
	case reflect.String:
		fmt.Fprintf(b, "%q", v.String())
	case reflect.Bool:
		fmt.Fprintf(b, "%v", v.Bool())
	case reflect.Int, reflect.Int8, reflect.Int16, reflect.Int32, reflect.Int64:
		fmt.Fprintf(b, "%d", v.Int())
	case reflect.Uint, reflect.Uint8, reflect.Uint16, reflect.Uint32, reflect.Uint64, reflect.Uintptr:
		fmt.Fprintf(b, "%d", v.Uint())
	case reflect.Float32, reflect.Float64:
		fmt.Fprintf(b, "%v", v.Float())
	default:
		b.WriteString("<" + v.Kind().String() + ">")
	}
}

func c18Snapshot(ctx map[string]interface{}) map[string]string {
	out := map[string]string{}
	for k, v := range ctx {
		var b strings.Builder
		c18Snap(reflect.ValueOf(v), &b, map[uintptr]bool{}, 0)
		out[k] = b.String()
	}
	out["#keys"] = strings.Join(sortedKeys(ctx), ",")
	return out
}

var c18Vars = []string{"bigi", "bigr", "bigf", "nums.debt", "nums.rate", "bigi", "nums.debt", "xs", "ys", "empty", "ss", "is", "fs", "arr", "parr", "m", "m2", "tm", "tmi", "im", "mii", "yl", "ym", "ym.page", "yl[0]", "nest", "st.Items", "st.Tags", "pst.Items", "st.Meta", "pst.Meta.k", "pn.List", "m.list", "m.nested.k", "nest[0]", "s", "nl", "nm.l", "nm", "nl"}
var c18Filters = []string{"sort", "reverse", "merge(ys)", "merge(xs)", "merge(m2)", "merge([9, 8])", "merge({'z': 1})", "merge(%W)", "merge(%W)", "merge(%W)", "default(%W)", "replace(%W)", "slice(0, 2)|merge(%W)", "keys|merge(%W)", "merge(%W)|sort", "slice(1, 2)", "slice(0, 1)", "slice(-2)", "slice(1)", "keys", "default([1])", "first", "last", "length", "join(',')", "json_encode", "upper", "lower",
	"capitalize", "title", "trim", "split(' ')", "replace('a', 'b')", "abs", "round", "number_format(1)", "escape", "raw", "striptags", "nl2br", "url_encode", "format(1)", "date('Y')", "spaceless", "count"}

func c18Templates(r *core.Rand) (map[string]string, bool) {
	v := c18Vars[r.Intn(len(c18Vars))]
	f1 := c18Filters[r.Intn(len(c18Filters))]
	f2 := c18Filters[r.Intn(len(c18Filters))]
	w := c18Vars[r.Intn(len(c18Vars))]
	// filter arguments drawn from the caller's data too (every variable, every key type)
	f1 = strings.ReplaceAll(f1, "%W", c18Vars[r.Intn(len(c18Vars))])
	f2 = strings.ReplaceAll(f2, "%W", c18Vars[r.Intn(len(c18Vars))])
	srcs := map[string]string{"inc": "{% set got = got|default([])|merge([1]) %}{% set xs = [] %}{% for i in got %}{% set i = 0 %}{% endfor %}{{ got|sort|reverse|join }}{{ passed|sort|join }}",
		"lib": "{% macro mut(a, b) %}{% set a = a|merge([7])|sort %}{% set b = b|reverse %}{{ a|join }}{{ b|join }}{% endmacro %}"}
	var t string
	switch r.Intn(22) {
	case 21:
		// the function forms of tags (include(), block(), source() ... whatever the engine offers under those names) given the
		// caller's maps as their variables; an engine that does not have them fails the render, which modifies nothing either
		fv := []string{"m", "ym", "ym.page", "st.Meta", "pairs", "row", "yl[0]", "nm"}[r.Intn(8)]
		t = []string{"{{ include('inc', " + fv + ") }}", "{% for item in [m, ym, pairs] %}{{ include('inc', item) }}{% endfor %}", "{{ include('inc', " + fv + ", true) }}{{ include('inc') }}",
			"{% set got = " + fv + " %}{{ include('inc', got) }}", "{{ include(['nope', 'inc'], " + fv + ", with_context = true) }}"}[r.Intn(5)]
	case 20:
		// values of the caller's that can be read only once if read the wrong way (buffers, readers): printing them, plainly
		// or through filters, reads their text and leaves them as they are
		bv := []string{"buf", "page.body", "parts", "parts[0]", "rdr", "lazy.total", "lazy['label']", "lazy.both", "lazy.list[0]", "lazy"}[r.Intn(10)]
		t = "{{ lazy.total }}{{ lazy['label'] }}{{ lazy.both }}{% for k, f in lazy %}{{ f }}{% endfor %}" + "{{ " + bv + " }}|{{ " + bv + " }}|{% for p in parts %}{{ p }}{% endfor %}|{{ page.body }}{{ buf ~ '' }}|{{ " + bv + "|" + f1 + " }}|{% set held = " + bv + " %}{{ held }}{{ rdr }}"
	case 19:
		// maps of the caller's with unusual keys (empty, blank, digits) handed to filters and functions as an argument
		pv := []string{"pairs", "row.pairs", "spk", "row.spk", "m", "tm"}[r.Intn(6)]
		args := []string{"replace(%P)", "merge(%P)", "default(%P)", "format(%P)", "join(%P)", "split(%P)", "slice(%P)", "date(%P)", "number_format(%P)", "round(%P)", "trim(%P)", "replace(%P, %P)", "replace('a', %P)", "sort(%P)", "json_encode(%P)", "url_encode(%P)", "striptags(%P)", "first(%P)", "keys(%P)", "length(%P)"}
		a1, a2 := strings.ReplaceAll(args[r.Intn(len(args))], "%P", pv), strings.ReplaceAll(args[r.Intn(4)], "%P", pv)
		t = "{{ s|" + a1 + " }}{{ " + v + "|" + a2 + " }}{{ s|replace(" + pv + ") }}{{ " + pv + "|length }}{{ max(" + pv + ") }}{{ merge(" + pv + ", " + pv + ")|length }}{{ cycle(" + pv + ", 1) }}{{ range(1, 2, " + pv + ")|length }}{{ date(" + pv + ") }}"
	case 17, 18:
		// methods with pointer receivers that change their receiver, called on values the caller holds by value
		cv := []string{"cs", "board.Counters", "ca", "cm"}[r.Intn(4)]
		t = "{% for c in " + cv + " %}{{ c.Bump }}{{ c.Bump }}{{ c.Memo }}{{ c.Name }}{% endfor %}{% for k, c in " + cv + " %}{{ c.Bump }}{% endfor %}" +
			[]string{"{{ cs[0].Bump }}{{ cs[1].Memo }}", "{{ c1.Bump }}{{ c1.Memo }}{{ c1.Seen }}", "{{ cm.k.Bump }}{{ cm['j'].Memo }}", "{{ board.Main.Bump }}{{ board.Counters[0].Bump }}", "{{ (cs|first).Bump }}{{ (cs|last).Memo }}{{ (cs|reverse|first).Bump }}",
				"{% set c = c1 %}{{ c.Bump }}{% set l = cs %}{{ l[0].Bump }}", "{% for c in cs|slice(0, 1) %}{{ c.Bump }}{% endfor %}{% for c in cs|merge(ca) %}{{ c.Bump }}{% endfor %}", "{{ ca[1].Bump }}{% include 'cinc' with {'c': c1, 'l': cs} %}"}[r.Intn(8)]
		srcs["cinc"] = "{{ c.Bump }}{% for x in l %}{{ x.Bump }}{{ x.Memo }}{% endfor %}"
	case 16:
		// names bound by import / from / macro parameters / loops that are also keys of the caller's context
		top := strings.SplitN(v, ".", 2)[0]
		top = strings.SplitN(top, "[", 2)[0]
		t = "{% import 'lib' as " + top + " %}{% from 'lib' import mut as m2 %}{{ m2(xs, ss) }}{% import 'lib' as m %}{{ m.mut(ys, ss) }}{% for tm in [1] %}{% set st = tm %}{% endfor %}{% macro mm(xs, m) %}{% set xs = [] %}{% endmacro %}{{ mm(1, 2) }}"
	case 0, 1, 2, 3:
		t = "{{ " + v + "|" + f1 + " }}"
	case 4, 5, 6:
		t = "{{ " + v + "|" + f1 + "|" + f2 + " }}"
	case 7:
		t = "{% set a = " + v + "|" + f1 + " %}A{{ a|json_encode }}{% set b = a|" + f2 + " %}{% set c = a|sort %}{% set d = a|merge([0]) %}A{{ a|json_encode }}"
	case 8:
		t = "{% set " + strings.SplitN(v, ".", 2)[0] + " = [1] %}{% set xs = xs|merge([4]) %}{% set m = m|merge({'n': 1}) %}{{ xs|join }}{{ m|keys|join }}"
	case 9:
		t = "{% for x in " + v + " %}{% set x = 99 %}{% set " + strings.SplitN(w, ".", 2)[0] + " = x %}{{ loop.index }}{% endfor %}"
	case 10:
		t = "{% include 'inc' with {'got': " + v + ", 'passed': " + w + "} %}{% include 'inc' with {'got': xs, 'passed': ss} only %}"
	case 11:
		t = "{% import 'lib' as l %}{{ l.mut(" + v + ", " + w + ") }}{{ l.mut(xs, ss) }}"
	case 12:
		t = "{% set lit = [" + v + ", " + w + "] %}{{ lit[0]|" + f1 + " }}{{ lit|reverse|length }}{% set h = {'k': " + v + "} %}{{ h.k|" + f2 + " }}{{ h|merge({'k': 1})|length }}"
	case 13:
		t = "{{ merge(" + v + ", " + w + ")|length }}{{ max(" + v + ") }}{{ min(" + v + ") }}{{ cycle(" + v + ", 1) }}{{ length(" + v + ") }}{{ json_encode(" + v + ") }}{{ dump(" + v + ")|length }}"
	case 14:
		t = "{% do " + v + "|" + f1 + " %}{% if " + v + "|" + f2 + " %}y{% endif %}{{ " + v + " is empty }}{{ " + v + " is iterable }}{{ 1 in " + v + " }}{{ " + v + " == " + w + " }}"
	default:
		t = "{% for a in " + v + "|" + f1 + " %}{{ a }}{% endfor %}{% for k, a in " + v + " %}{% set k = 0 %}{% endfor %}{% apply upper %}{{ " + v + "|" + f2 + " }}{% endapply %}"
	}
	srcs["main"] = t
	return srcs, true
}

// c18WithSpare rebuilds decoded JSON data so that every list has spare capacity holding sentinels (an append into a caller's
// backing array then shows up in the snapshot).
func c18WithSpare(v interface{}) interface{} {
	switch x := v.(type) {
	case map[string]interface{}:
		m := make(map[string]interface{}, len(x))
		for k, e := range x {
			m[k] = c18WithSpare(e)
		}
		return m
	case []interface{}:
		out := make([]interface{}, len(x))
		for i := range x {
			out[i] = c18WithSpare(x[i])
		}
		return c18Spare(out...)
	}
	return v
}

func (p *c18) Run(rec *core.Recorder, seed uint64, idx int, tier string) {
	r := core.NewRand("C18", seed, idx)
	srcs, nontrivial := c18Templates(r)
	variant := r.Intn(3)
	main := "main"
	mkCtx := func() map[string]interface{} { return c18Ctx(variant) }
	class := "case"
	if idx%8 == 7 {
		// an entry of the independently written corpus with its own context
		if we, ok := wildPick(r); ok {
			srcs, main, nontrivial, class = we.Srcs(), we.Render, true, "wild"
			mkCtx = func() map[string]interface{} { return c18WithSpare(we.Ctx(nil)).(map[string]interface{}) }
			rec.Count("wild-entries", 1)
		}
	}
	rec.Eval(class, canonSrcs(srcs)+fmt.Sprint(variant), nontrivial)
	cs := map[string]any{"templates": srcs, "context_variant": variant, "render": main}
	ctx := mkCtx()
	before := c18Snapshot(ctx)
	res1 := renderFresh(srcs, main, ctx, nil)
	after := c18Snapshot(ctx)
	rec.Count("snapshots-compared", 1)
	if res1.Panicked {
		rec.Violate("panic", "panic@"+res1.Site, "engine panicked: "+res1.PanicVal, cs, res1.Stack)
		return
	}
	for _, k := range sortedKeys(before) {
		if before[k] != after[k] {
			rec.Violate("snapshot-diff", "caller-data-modified:"+k,
				fmt.Sprintf("rendering %s changed the caller's %q: before %s after %s", core.Q(core.Trunc(srcs[main], 300)), k, core.Trunc(before[k], 300), core.Trunc(after[k], 300)), cs, "")
			return
		}
	}
	if len(after) != len(before) {
		rec.Violate("snapshot-diff", "caller-map-keys", "the context map gained or lost keys", cs, "")
		return
	}
	// second render on the same data vs a pristine copy
	res2 := renderFresh(srcs, main, ctx, nil)
	res3 := renderFresh(srcs, main, mkCtx(), nil)
	rec.Count("second-render-checks", 1)
	if res1.ErrStr() != res2.ErrStr() || res1.Out != res2.Out || res3.Out != res1.Out {
		rec.Violate("second-render", core.SigHash("c18-second", canonSrcs(srcs)),
			fmt.Sprintf("renders sharing context data influence each other: first %s / second %s / pristine copy %s; template %s", core.Q(core.Trunc(res1.Out, 150)), core.Q(core.Trunc(res2.Out, 150)), core.Q(core.Trunc(res3.Out, 150)), core.Q(core.Trunc(srcs[main], 300))), cs, "")
		return
	}
	// a set value printed before and after other filters were applied to it
	if strings.HasPrefix(srcs["main"], "{% set a = ") && res1.Err == nil {
		parts := strings.Split(res1.Out, "A")
		if len(parts) >= 3 && parts[1] != parts[2] {
			rec.Violate("filter-aliasing", core.SigHash("c18-alias", srcs["main"]), fmt.Sprintf("a value obtained from one filter was changed by applying another: before %s after %s; template %s", core.Q(parts[1]), core.Q(parts[2]), core.Q(srcs["main"])), cs, "")
			return
		}
	}
	if idx%8 == 0 {
		// concurrent renders on shared data (meaningful in the -race build; harmless otherwise)
		shared := mkCtx()
		var wg sync.WaitGroup
		for g := 0; g < 2; g++ {
			wg.Add(1)
			go func(g int) {
				defer wg.Done()
				rr := core.NewRand("C18g", seed, idx*2+g)
				for i := 0; i < 6; i++ {
					s2 := srcs
					if i > 0 {
						s2, _ = c18Templates(rr)
					}
					m2 := "main"
					if i == 0 {
						m2 = main
					}
					renderFresh(s2, m2, shared, nil)
				}
			}(g)
		}
		wg.Wait()
		rec.Count("race-shared-renders", 12)
	}
	if rec.WantSample("case") {
		cs["output"] = core.Trunc(res1.Out, 200)
		cs["error"] = res1.ErrStr()
		rec.Sample("case", cs)
	}
}
