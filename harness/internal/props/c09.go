package props

import (
	"fmt"

	"verifharness/internal/core"
	"verifharness/internal/mt"
)

// C09 — if / for / set control flow.
type c09 struct{ base }

func init() {
	Register(&c09{base{
		id: "C09", level: "exploration",
		technique: "reference-model monitor: generated if/for/set programs interpreted by the reference interpreter and rendered once on a fresh engine; exhaustive truthiness, list-length, string and range grids",
		rule: "case = program (nested if/elseif/else, for/else over lists, strings and ranges with loop.* printed, set accumulators) + context; expected bytes from the reference interpreter. " +
			"Non-trivial: the program contains a for or an if whose body contains another for/if, or is a grid point that iterates >= 1 element or tests a non-literal condition. Distinct = distinct (templates, context).",
		assumptions: []string{
			"no loops over maps, no reads of loop variables after their loop, range() only with a step pointing towards end, no float conditions, valid UTF-8 strings only",
			"typed empty / non-empty Go slices and maps ([]string, []int, map[string]string) stand for lists and maps in truthiness probes",
			"the reference interpreter (internal/mt) is trusted to transcribe the statement",
		},
		quick: 100000, thorough: 1500000, minQuick: 10000, minThorough: 100000,
	}})
}

func (p *c09) check(rec *core.Recorder, class string, body []mt.Stmt, ctx map[string]mt.Val, goOver map[string]interface{}, nontrivial bool) {
	set := mt.NewSet()
	set.Add("main", body)
	if h := core.Hash64((&mt.Printer{}).SourceSet(set)["main"], "inside-a-layout"); h%6 == 0 {
		// one program in six is the body of a block of a template that extends a layout; the sets the program begins with
		// stand outside the block, before or after the extends tag, where they are "rendered" before everything in the block
		k := 0
		for k < len(body) {
			if _, ok := body[k].(mt.Set); !ok {
				break
			}
			k++
		}
		before := int(h / 6 % uint64(k+1))
		main := []mt.Stmt{mt.Set{Name: "c09pre", E: mt.S("P1")}}
		main = append(main, body[:before]...)
		main = append(main, mt.Extends{E: mt.S("c09lay")}, mt.Set{Name: "c09post", E: mt.Op("~", mt.V("c09pre"), mt.S("P2"))})
		main = append(main, body[before:k]...)
		main = append(main, mt.Block{Name: "c09body", Body: append([]mt.Stmt{mt.P(mt.V("c09post")), mt.T(":")}, body[k:]...)})
		set = mt.NewSet()
		set.Add("main", main)
		set.Add("c09lay", []mt.Stmt{mt.T("L<"), mt.Block{Name: "c09body", Body: []mt.Stmt{mt.T("default")}}, mt.T(">")})
		rec.Count("programs-inside-an-extending-template", 1)
	}
	in := mt.NewInterp(set)
	want, werr := in.Render("main", ctx)
	pr := &mt.Printer{}
	srcs := maybeLarge(rec, pr.SourceSet(set))
	canon := canonSrcs(srcs) + canonCtx(ctx)
	if werr != nil {
		if ErrIsUndefined(werr) {
			rec.Count("skipped-undefined", 1)
			return
		}
		rec.Count("skipped-referr", 1)
		return
	}
	rec.Eval(class, canon, nontrivial)
	gctx := ctxToGo(ctx)
	for k, v := range goOver {
		gctx[k] = v
	}
	srcs["main"] = shadowingMacros(rec, canon, srcs["main"], gctx)
	res := renderFresh(srcs, "main", gctx, shadowedGlobals(rec, canon, gctx, nil))
	if res.Panicked {
		rec.Violate("panic", "panic@"+res.Site, "engine panicked: "+res.PanicVal, caseDump(srcs, "main", ctx, map[string]any{"expected": want}), res.Stack)
		return
	}
	if res.Err != nil || res.Out != want {
		rec.Violate("reference-model", core.SigHash("c09", canon),
			fmt.Sprintf("engine gave %s (err=%v), statement requires %s; source %s", core.Q(core.Trunc(res.Out, 300)), res.Err, core.Q(core.Trunc(want, 300)), core.Q(core.Trunc(srcs["main"], 500))),
			caseDump(srcs, "main", ctx, map[string]any{"expected": want, "got": res.Out, "err": res.ErrStr()}), "")
		return
	}
	if rec.WantSample(class) {
		rec.Sample(class, map[string]any{"template": srcs["main"], "output": want})
	}
}

func fullMeta() []mt.Stmt {
	lp := func(n string) mt.Expr { return mt.Attr{E: mt.V("loop"), Name: n} }
	return []mt.Stmt{mt.T("#"), mt.P(lp("index")), mt.T("."), mt.P(lp("index0")), mt.T("."), mt.P(lp("revindex")), mt.T("."), mt.P(lp("revindex0")), mt.T("."), mt.P(lp("length")),
		mt.T("."), mt.P(mt.Cond{C: lp("first"), A: mt.S("F"), B: mt.S("-")}), mt.P(mt.Cond{C: lp("last"), A: mt.S("L"), B: mt.S("-")})}
}

func (p *c09) Run(rec *core.Recorder, seed uint64, idx int, tier string) {
	r := core.NewRand("C09", seed, idx)
	probes := truthProbes()
	ctxProbes := func() (map[string]mt.Val, map[string]interface{}) {
		ctx := map[string]mt.Val{}
		over := map[string]interface{}{}
		for _, pb := range probes {
			ctx[pb.name] = pb.val
			if pb.goVal != nil {
				over[pb.name] = pb.goVal
			}
		}
		return ctx, over
	}
	// --- grid 1: truthiness × structure (20 probes × 6 structures)
	n1 := len(probes) * 6
	if idx < n1 {
		pb := probes[idx/6]
		c := mt.Expr(mt.V(pb.name))
		ctx, over := ctxProbes()
		var body []mt.Stmt
		switch idx % 6 {
		case 0:
			body = []mt.Stmt{mt.If{Conds: []mt.Expr{c}, Bodies: [][]mt.Stmt{{mt.T("T")}}}, mt.T("|")}
		case 1:
			body = []mt.Stmt{mt.If{Conds: []mt.Expr{c}, Bodies: [][]mt.Stmt{{mt.T("T")}}, HasElse: true, Else: []mt.Stmt{mt.T("E")}}}
		case 2:
			body = []mt.Stmt{mt.If{Conds: []mt.Expr{mt.V("f_nil"), c}, Bodies: [][]mt.Stmt{{mt.T("A")}, {mt.T("B")}}, HasElse: true, Else: []mt.Stmt{mt.T("E")}}}
		case 3:
			body = []mt.Stmt{mt.If{Conds: []mt.Expr{c, mt.V("t_true")}, Bodies: [][]mt.Stmt{{mt.T("A")}, {mt.T("B")}}, HasElse: true, Else: []mt.Stmt{mt.T("E")}}}
		case 4:
			body = []mt.Stmt{mt.If{Conds: []mt.Expr{mt.Un{Op: "not", E: c}}, Bodies: [][]mt.Stmt{{mt.T("N")}}, HasElse: true, Else: []mt.Stmt{mt.T("P")}}}
		default:
			body = []mt.Stmt{mt.P(mt.Cond{C: c, A: mt.S("T"), B: mt.S("F")}), mt.If{Conds: []mt.Expr{mt.Op("and", c, mt.V("t_one"))}, Bodies: [][]mt.Stmt{{mt.T("&")}}},
				mt.If{Conds: []mt.Expr{mt.Op("or", c, mt.V("f_zero"))}, Bodies: [][]mt.Stmt{{mt.T("v")}}}}
		}
		p.check(rec, "grid-truthiness", body, ctx, over, true)
		return
	}
	idx -= n1
	// --- grid 2: literal conditions
	lits := []mt.Expr{mt.I(0), mt.S(""), mt.Null(), mt.B(false), mt.Arr{}, mt.Hash{}, mt.B(true), mt.I(5), mt.I(-1), mt.S("0"), mt.S(" "), mt.S("a"),
		mt.Arr{Items: []mt.Expr{mt.I(0)}}, mt.Hash{Keys: []string{"a"}, Vals: []mt.Expr{mt.Null()}}, mt.Arr{Items: []mt.Expr{mt.Arr{}}}}
	if idx < len(lits) {
		body := []mt.Stmt{mt.If{Conds: []mt.Expr{lits[idx]}, Bodies: [][]mt.Stmt{{mt.T("T")}}, HasElse: true, Else: []mt.Stmt{mt.T("E")}}}
		p.check(rec, "grid-literal-cond", body, map[string]mt.Val{}, nil, true)
		return
	}
	idx -= len(lits)
	// --- grid 3: list lengths 0..40 × {plain, key/value, nested}
	n3 := 41 * 3
	if idx < n3 {
		n := idx / 3
		l := make([]mt.Val, n)
		for i := range l {
			l[i] = int64(i*7%11 - 3)
		}
		ctx := map[string]mt.Val{"xs": l, "in2": []mt.Val{int64(1), int64(2)}}
		var body []mt.Stmt
		switch idx % 3 {
		case 0:
			body = []mt.Stmt{mt.For{Val: "v", Seq: mt.V("xs"), Body: append([]mt.Stmt{mt.P(mt.V("v"))}, append(fullMeta(), mt.T(";"))...), HasElse: true, Else: []mt.Stmt{mt.T("EMPTY")}}}
		case 1:
			body = []mt.Stmt{mt.For{Key: "k", Val: "v", Seq: mt.V("xs"), Body: []mt.Stmt{mt.P(mt.V("k")), mt.T("="), mt.P(mt.V("v")), mt.T(";")}}}
		default:
			inner := mt.For{Val: "w", Seq: mt.V("in2"), Body: append([]mt.Stmt{mt.T("(")}, append(fullMeta(), mt.T(")"))...)}
			body = []mt.Stmt{mt.For{Val: "v", Seq: mt.V("xs"), Body: append(append([]mt.Stmt{mt.T("<")}, fullMeta()...), append([]mt.Stmt{inner}, append(fullMeta(), mt.T(">"))...)...), HasElse: true, Else: []mt.Stmt{mt.T("EMPTY")}}}
		}
		p.check(rec, "grid-list-length", body, ctx, nil, n > 0)
		return
	}
	idx -= n3
	// --- grid 4: strings
	strs := []string{"", "a", "ab", "é", "héy", "日本語", "a日b", "€uro", "😀x", "xyz", "ÄÖÜ", "q😀é日a"}
	if idx < len(strs)*2 {
		s := strs[idx/2]
		var seq mt.Expr = mt.V("str")
		if idx%2 == 1 {
			seq = mt.S(s)
		}
		body := []mt.Stmt{mt.For{Val: "ch", Seq: seq, Body: append([]mt.Stmt{mt.P(mt.V("ch"))}, append(fullMeta(), mt.T(";"))...), HasElse: true, Else: []mt.Stmt{mt.T("EMPTY")}}}
		p.check(rec, "grid-string", body, map[string]mt.Val{"str": s}, nil, s != "")
		return
	}
	idx -= len(strs) * 2
	// --- grid 5: ranges start,end in [-6,6], steps
	steps := []int64{0, 1, 2, 3, 7} // 0 = omitted
	n5 := 13 * 13 * len(steps)
	if idx < n5 {
		a := int64(idx/len(steps)/13 - 6)
		b := int64(idx/len(steps)%13 - 6)
		st := steps[idx%len(steps)]
		var call mt.Expr
		if st == 0 {
			if a > b {
				rec.Count("skipped-undefined", 1)
				return
			}
			call = mt.Call{Name: "range", Args: []mt.Expr{mt.I(a), mt.I(b)}}
		} else {
			if a > b {
				st = -st
			}
			call = mt.Call{Name: "range", Args: []mt.Expr{mt.I(a), mt.I(b), mt.I(st)}}
		}
		body := []mt.Stmt{mt.For{Val: "i", Seq: call, Body: append([]mt.Stmt{mt.P(mt.V("i"))}, append(fullMeta(), mt.T(";"))...), HasElse: true, Else: []mt.Stmt{mt.T("EMPTY")}}}
		p.check(rec, "grid-range", body, map[string]mt.Val{}, nil, true)
		return
	}
	idx -= n5
	// --- grid 6: set visibility
	if idx < 4 {
		var body []mt.Stmt
		switch idx {
		case 0:
			body = []mt.Stmt{mt.Set{Name: "t", E: mt.I(0)}, mt.For{Val: "v", Seq: mt.V("xs"), Body: []mt.Stmt{mt.Set{Name: "t", E: mt.Op("+", mt.V("t"), mt.V("v"))}, mt.P(mt.V("t")), mt.T(",")}}, mt.T("="), mt.P(mt.V("t"))}
		case 1:
			body = []mt.Stmt{mt.Set{Name: "a1", E: mt.I(2)}, mt.Set{Name: "b1", E: mt.Op("*", mt.V("a1"), mt.I(3))}, mt.Set{Name: "a1", E: mt.Op("+", mt.V("b1"), mt.V("a1"))}, mt.P(mt.V("a1")), mt.T("/"), mt.P(mt.V("b1"))}
		case 2:
			body = []mt.Stmt{mt.Set{Name: "s1", E: mt.S("")}, mt.For{Val: "c", Seq: mt.S("héy"), Body: []mt.Stmt{mt.Set{Name: "s1", E: mt.Op("~", mt.V("c"), mt.V("s1"))}}}, mt.P(mt.V("s1"))}
		default:
			body = []mt.Stmt{mt.Set{Name: "n1", E: mt.I(0)}, mt.For{Val: "v", Seq: mt.V("xs"), Body: []mt.Stmt{mt.For{Val: "w", Seq: mt.V("xs"), Body: []mt.Stmt{mt.If{Conds: []mt.Expr{mt.Op("<", mt.V("w"), mt.V("v"))}, Bodies: [][]mt.Stmt{{mt.Set{Name: "n1", E: mt.Op("+", mt.V("n1"), mt.I(1))}}}}}}}}, mt.P(mt.V("n1"))}
		}
		p.check(rec, "grid-set", body, map[string]mt.Val{"xs": []mt.Val{int64(3), int64(1), int64(4), int64(1), int64(5)}}, nil, true)
		return
	}
	idx -= 4
	if idx%20 == 13 {
		// lists set from one base list that has been built by range(), merge or slice (and so may carry spare room): every
		// set keeps the value it was given, whatever is set or iterated afterwards
		lit := func(n int64) mt.Expr { return mt.Arr{Items: []mt.Expr{mt.I(n)}} }
		merge := func(e mt.Expr, with mt.Expr) mt.Expr { return mt.Filt{E: e, Name: "merge", Args: []mt.Expr{with}} }
		base := []mt.Expr{
			mt.Call{Name: "range", Args: []mt.Expr{mt.I(1), mt.I(int64(r.Range(2, 6)))}},
			merge(mt.Arr{Items: []mt.Expr{mt.I(1), mt.I(2)}}, lit(3)),
			mt.Filt{E: mt.V("xs"), Name: "slice", Args: []mt.Expr{mt.I(0), mt.I(int64(r.Range(1, 4)))}},
			merge(mt.Call{Name: "range", Args: []mt.Expr{mt.I(1), mt.I(2)}}, mt.Call{Name: "range", Args: []mt.Expr{mt.I(5), mt.I(int64(r.Range(5, 9)))}}),
			merge(merge(mt.V("xs"), lit(6)), lit(7)),
		}[r.Intn(5)]
		show := func(name string) mt.Stmt {
			return mt.For{Val: "e", Seq: mt.V(name), Body: []mt.Stmt{mt.P(mt.V("e")), mt.T(".")}}
		}
		body := []mt.Stmt{mt.Set{Name: "lb", E: base},
			mt.Set{Name: "la", E: merge(mt.V("lb"), lit(int64(r.Range(10, 19))))},
			mt.Set{Name: "lc", E: merge(mt.V("lb"), lit(int64(r.Range(20, 29))))},
			mt.T("a:"), show("la"), mt.T("c:"), show("lc"), mt.T("b:"), show("lb"),
			mt.For{Val: "i", Seq: mt.Arr{Items: []mt.Expr{mt.I(31), mt.I(32), mt.I(33)}}, Body: []mt.Stmt{
				mt.Set{Name: "row", E: merge(mt.V("lb"), mt.Arr{Items: []mt.Expr{mt.V("i")}})},
				mt.If{Conds: []mt.Expr{mt.Attr{E: mt.V("loop"), Name: "first"}}, Bodies: [][]mt.Stmt{{mt.Set{Name: "kept", E: mt.V("row")}}}},
				mt.T("r:"), show("row")}},
			mt.T("k:"), show("kept"), mt.T("a:"), show("la")}
		rec.Count("sets-from-a-shared-base", 1)
		p.check(rec, "shared-base", body, map[string]mt.Val{"xs": []mt.Val{int64(3), int64(1), int64(4), int64(1), int64(5)}}, nil, true)
		return
	}
	// --- random programs
	pg := NewProgGen(r)
	pg.intVars = []string{"acc0"}
	body := pg.Body(r.Range(2, 4), 5)
	p.check(rec, "random", body, pg.Sc.Ctx, pg.GoOver, pg.Fors+pg.Ifs >= 2)
}
