// Package props holds one monitor set per property (C01..C20).
package props

import (
	"sort"

	"verifharness/internal/core"
)

// Prop is one property check. Cases are numbered 0..NumCases-1 and are a pure
// function of (seed, index, tier); shards take indices round-robin.
type Prop interface {
	ID() string
	Level() string
	Technique() string
	Rule() string
	Assumptions() []string
	NumCases(tier string) int
	// Run executes case idx against the real engine and records what the monitors saw.
	Run(rec *core.Recorder, seed uint64, idx int, tier string)
	// MinDistinct is the minimum number of distinct non-trivial cases below which a run is
	// "insufficient observation" (exit 2), never "held".
	MinDistinct(tier string) int
}

// Optional interfaces.

// RaceProp: children are the -race build; race reports in the log are verdicts.
type RaceProp interface {
	// RaceCases says which case indices run under the race build (others run in the plain build).
	RaceCase(idx int, tier string) bool
	// ClassifyRace turns a race report into (signature, isViolation, reason).
	ClassifyRace(report string) (sig string, violation bool, why string)
}

// HangProp: a hang is a verdict (C05).
type HangProp interface{ HangIsViolation() bool }

// Sharder lets a property override shard count / per-case timeout.
type Tuner interface {
	Shards(tier string) int
	CaseTimeoutSec(tier string) int
}

// Required lets a property demand that certain counters are non-zero at the end of a run.
type Required interface{ RequiredCounters(tier string) []string }

var registry = map[string]Prop{}

func Register(p Prop)    { registry[p.ID()] = p }
func Get(id string) Prop { return registry[id] }
func IDs() []string {
	var ids []string
	for k := range registry {
		ids = append(ids, k)
	}
	sort.Strings(ids)
	return ids
}
