package props

import (
	"fmt"
	"github.com/semihalev/twig"
	"runtime"
	"strings"

	"verifharness/internal/core"
	"verifharness/internal/mt"
)

// C14 — template length and tag position do not change how a template is read.
type c14 struct{ base }

func init() {
	Register(&c14{base{
		id: "C14", level: "exploration",
		technique: "metamorphic monitor: the same template with short marker pads vs long literal / comment pads at the same insertion points; expected long output = short output with each marker followed by its filler",
		rule: "case = (template from the per-tag-kind corpus or a generated program, optionally with dashes; a set of insertion points; per point a text or comment pad; a target total length from {4095, 4096, 4097, 8K, 20K+-1, 64K+-1, 100K+-1, 300K} or a pad count crossing 32 / 256 / 1024 tokens, or a pad that puts a chosen tag exactly at offset 4095/4096/4097). " +
			"Both versions are rendered once on fresh engines. Non-trivial: the short source is below 4096 bytes and the long one is above, or the pad count crosses a token-count class. Distinct = distinct long source.",
		assumptions: []string{
			"filler contains no delimiter openers, starts and ends with a non-blank byte, is invariant under the filters applied around it (upper-case letters and digits) and is not placed inside tags or verbatim bodies",
		},
		quick: 36000, thorough: 500000, minQuick: 5000, minThorough: 50000,
	}})
}

func (p *c14) Shards(string) int         { return 16 }
func (p *c14) CaseTimeoutSec(string) int { return 120 }
func (p *c14) RequiredCounters(string) []string {
	return []string{"straddles-4096", "tag-at-4096", "token-count-crossings", "sources>=64K", "capacity-exact-hits"}
}

const c14FillerAlphabet = "XQZ0123456789KV"

func c14Filler(r *core.Rand, n int) string {
	if n < 2 {
		n = 2
	}
	b := make([]byte, n)
	for i := range b {
		switch {
		case i == 0 || i == n-1:
			b[i] = 'X'
		case i%61 == 60:
			b[i] = '\n'
		case i%7 == 6:
			b[i] = ' '
		default:
			b[i] = c14FillerAlphabet[r.Intn(len(c14FillerAlphabet))]
		}
	}
	return string(b)
}

// c14Lexical: hand-written templates that go through every lexical form the two tokenizers must agree on (string literals with
// escapes and embedded delimiters, numbers, multi-character operators, hashes, keyword tags with their own tokenizer paths).
// Each entry is a list of pieces; an element starting with "{{" or "{%" is one whole tag, anything else is text.
var c14Lexical = [][]string{
	{"a", `{{ "it\"s" }}`, "b", `{{ 'it\'s'|upper }}`, "c"},
	{`{% set q = "a\"b" %}`, "x", `{{ q }}`, "y", `{% if q == "a\"b" %}`, "T", `{% endif %}`, "z"},
	{"a", `{{ "a\"" ~ 'b\'' ~ "\"" }}`, "b", `{{ "\"" }}`, "c", `{{ '\'' ~ s ~ '\'' }}`, "d"},
	{"a", `{{ 'x\\' }}`, "c", `{{ "y\\" ~ s }}`, "d"},
	{"a", `{{ "a}}b" }}`, "b"},
	{"a", `{{ 'c%}d' }}`, "b"},
	{"a", `{% if 'e%}' %}`, "T", `{% endif %}`},
	{"a", `{{ '{{ not a tag }}'|length }}`, "b"},
	{"a", `{{ "{# nc #}" }}`, "c"},
	{"a", `{{ '{% x %}' }}`, "d"},
	{"a", `{{ "}" ~ '{' ~ "%" ~ '#' }}`, "d", `{{ '} }' }}`, `{{ "% }" }}`},
	{"n", `{{ 1.5 + 2 }}`, "|", `{{ 0.25 * 4 }}`, "|", `{{ 10.0 / 4 }}`, "|", `{{ 3.14|round }}`},
	{"n", `{{ (1..3)|join(',') }}`},
	{"n", `{% for i in 1..3 %}`, "[", `{{ i }}`, "]", `{% endfor %}`},
	{"n", `{{ 10 // 3 }}`},
	{"n", `{{ 2 ** 3 }}`},
	{"o", `{{ s ~ '-' ~ 1.25 }}`, "|", `{{ yes ? 'a' : 'b' }}`, "|", `{{ no ? "a\"" : "b\"" }}`},
	{"o", `{{ no ?: 'elvis' }}`},
	{"o", `{{ nope ?? 'dflt' }}`},
	{"t", `{{ 2 not in xs ? 'N' : 'Y' }}`, "|", `{{ s is not null ? 1 : 0 }}`, "|", `{{ 'Sab' starts with s ? 1 : 0 }}`, "|", `{{ 'abS' ends with s ? 1 : 0 }}`, "|", `{{ s matches '/^S$/' ? 1 : 0 }}`},
	{"t", `{{ s is defined and nope is not defined ? 'd' : 'u' }}`, "|", `{{ 4 is divisible by(2) ? 1 : 0 }}`, "|", `{{ s is same as(s) ? 1 : 0 }}`},
	{"h", `{% set h = {'k': 'v', "k2": [1, 2, {'z': '}'}]} %}`, "|", `{{ h.k }}`, `{{ h.k2[2].z }}`, "|", `{{ {'a': 1}|keys|join }}`},
	{"h", `{{ {'a': "q\"", 'b': '}'}|join('-') }}`, "|", `{{ [1, "2\"", '3\'']|join }}`, "|", `{{ {"k}": 1}|keys|first }}`},
	{"i", `{% include 'inc' with {'w': "q\"}"} only %}`},
	{"i", `{% include 'inc' with {'w': '%}'} %}`},
	{"i", `{% include 'inc' with {'w': "q\""} only %}`, "|", `{% include 'inc' with {'w': 'r}'} %}`, "|", `{% include 'inc' %}`, "|", `{% include "inc" ignore missing with {'w': 1.5} %}`},
	{"f", `{% from 'lib' import mm as z %}`, "|", `{{ z('%}') }}`},
	{"f", `{% import 'lib' as l %}`, `{{ l.mm("}}") }}`},
	{"f", `{% from 'lib' import mm as z %}`, "|", `{{ z("a\"b") }}`, "|", `{% import "lib" as l %}`, `{{ l.mm('}') }}`, `{{ l.mm(1.5) }}`},
	{"m", `{% macro dm(a = "d\"q", b = '}}') %}`, "[", `{{ a }}`, `{{ b }}`, "]", `{% endmacro %}`, "|", `{{ dm() }}`, "|", `{{ dm('x') }}`},
	{"m", `{% macro dn(a = 1.5, b = -2, c = 'x\'y') %}`, "[", `{{ a }}`, `{{ b }}`, `{{ c }}`, "]", `{% endmacro %}`, "|", `{{ dn() }}`, "|", `{{ _self.dn(3) }}`},
	{"c", `{{1+2*3}}`, "|", `{{s~s}}`, "|", `{{ xs[0]+xs[2] }}`, "|", `{{ xs|length>2?'big':'small' }}`, "|", `{{(1+2)*3}}`},
	{"c", `{{s|upper|lower~'x'}}`, "|", `{{xs[1]==0?'z':'n'}}`, "|", `{{ xs | length }}`, "|", `{{ 7%3 }}`, `{{ 7 %3 }}`, `{{ 7% 3 }}`},
	{"b", `{{ 'a\\\\b' }}`, "|", `{{ "tab\there" }}`, "|", `{{ 'nl\nx'|length }}`, "|", `{{ 'é}' ~ "日本'" }}`},
	{"l", "{{\n s \n|\n upper \n}}", "|", "{%\tif yes\n%}", "T", "{%\nendif\t%}", "|", "{{ s\r\n}}"},
	{"s", `{% set a, b = 'x', "y\"" %}`, `{{ a }}`, `{{ b }}`},
	{"s", `{% set cap %}`, "in", `{{ s }}`, `{% endset %}`, `{{ cap }}`},
	{"s", `{% set a = 'x' %}`, `{% set b = "y\"" ~ a %}`, `{{ a }}`, `{{ b }}`, `{% set c = [a, b, 1.5] %}`, `{{ c|join('/') }}`},
	{"a", `{% apply upper %}`, "abc", `{{ s }}`, `{% endapply %}`},
	{"a", `{% apply lower|escape %}`, "<B>", `{% endapply %}`},
	{"a", `{% apply replace({'b': "\""}) %}`, "abc", `{% endapply %}`},
	{"e", `{% extends 'base' %}`, `{% block c %}`, "child", `{{ "q\"" }}`, `{{ parent() }}`, `{% endblock %}`},
	{"e", `{% extends "base" %}`, `{% block c %}`, `{{ 'x\'' }}`, `{% endblock c %}`},
	{"d", `{% do 1 + 2 %}`, "|", `{% if not (yes and no) or s == 'S' %}`, "T", `{% elseif "x\"" %}`, "U", `{% else %}`, "E", `{% endif %}`},
	{"d", `{% if no %}`, "T", `{% elseif s == "S\"" or s == 'S' %}`, "U", `{% else %}`, "E", `{% endif %}`, `{% for k, v in {'a': "1\""} %}`, `{{ k }}`, `{{ v }}`, `{% endfor %}`},
	{"x", `{{ s|default("d\"f")|upper }}`, "|", `{{ none|default('e}')|length }}`},
	{"x", `{{ s|replace('S', "\"}") }}`},
	{"x", `{{ s|replace('S', "\"") }}`, "|", `{{ 'a,b'|split(',')|join("\"") }}`, "|", `{{ "x"|format }}`, `{{ '%s"'|format(s) }}`},
	{"v", `{{ s }}`, "|", `{{ "a\"" }}`, `{% spaceless %}`, "<a> <b>", `{{ 'c\'' }}`, `{% endspaceless %}`},
}

func c14LexicalPieces(e []string) []mt.Piece {
	var ps []mt.Piece
	for _, el := range e {
		if len(el) >= 4 && (strings.HasPrefix(el, "{{") || strings.HasPrefix(el, "{%")) {
			kind := "raw"
			if strings.HasPrefix(el, "{{") {
				kind = "print"
			}
			ps = append(ps, mt.Piece{Tag: true, Kind: kind, Open: el[:2], Inner: el[2 : len(el)-2], Close: el[len(el)-2:], NoDash: true})
		} else {
			ps = append(ps, mt.Piece{Kind: "text", Text: el})
		}
	}
	return ps
}

// c14Tokens counts the tokens the engine's own tokenizer produces for a source (public API; used only to steer pad sizes).
func c14Tokens(src string) int {
	n := -1
	core.Guard(func() {
		tk := twig.GetTokenizer(src, 0)
		defer twig.ReleaseTokenizer(tk)
		var toks []twig.Token
		var err error
		if len(src) > 4096 {
			toks, err = tk.TokenizeOptimized()
		} else {
			toks, err = tk.TokenizeHtmlPreserving()
		}
		if err == nil {
			n = len(toks)
		}
	})
	return n
}

// capacityExact pads a (usually dashed) template with comments and text so that its token count lands exactly on, or next to,
// a capacity boundary of the token buffer (256 and its doublings, len(source)/10), and renders it with freshly allocated pools.
func (p *c14) capacityExact(rec *core.Recorder, r *core.Rand) {
	corpus := c13Corpus()
	e := corpus[r.Intn(len(corpus))]
	set := e.set()
	pr := &mt.Printer{Tight: r.P(1, 4)}
	srcs := pr.SourceSet(set)
	ps := padPieces(r, pr.Pieces(set.T["main"].Body))
	tags := dashable(ps)
	mask := r.U64() & (1<<uint(2*len(tags)) - 1)
	if r.P(1, 4) {
		mask = 0
	}
	ps, _, _ = applyDashes(ps, tags, mask)
	var points []int
	for i := 0; i <= len(ps); i++ {
		if (i > 0 && ps[i-1].Kind == "verbatim") || (i < len(ps) && ps[i].Kind == "endverbatim") {
			continue
		}
		points = append(points, i)
	}
	at := points[r.Intn(len(points))]
	before, after := mt.Join(ps[:at]), mt.Join(ps[at:])
	marker := "¤000¤"
	build := func(nA, nB, fill int) (string, string) {
		f := ""
		if fill > 0 {
			f = c14Filler(r.Fork(), fill)
		}
		return before + marker + f + strings.Repeat("{##}", nA) + strings.Repeat("{# c #}", nB) + after, f
	}
	shortSrc := before + marker + after
	base, _ := build(0, 0, 0)
	t0 := c14Tokens(base)
	one, _ := build(1, 0, 0)
	slope := c14Tokens(one) - t0
	if t0 < 0 || slope <= 0 {
		rec.Count("capacity-exact-unsteerable", 1)
		return
	}
	delta := r.Intn(3) - 1
	var longSrc, fill string
	want := 0
	if r.Bool() {
		// token count = 256 * 2^k + delta (counting, or not counting, the end-of-input token)
		want = []int{256, 256, 256, 512, 1024}[r.Intn(5)] + delta
		nA := (want - t0) / slope
		if nA < 0 {
			nA = 0
		}
		longSrc, fill = build(nA, 0, 0)
		for nB := 0; nB < 4 && c14Tokens(longSrc) != want; nB++ {
			longSrc, fill = build(nA-nB, nB+1, 0)
			if nA-nB < 0 {
				break
			}
		}
	} else {
		// token count = len(source)/10 + delta for a source above 2560 bytes
		nA := r.Range(40, 400)
		src0, _ := build(nA, 0, 0)
		tk := c14Tokens(src0)
		need := 10*(tk-delta) + r.Intn(10) - len(src0)
		if need < 2 {
			rec.Count("capacity-exact-unsteerable", 1)
			return
		}
		longSrc, fill = build(nA, 0, need)
		want = len(longSrc)/10 + delta
	}
	got := c14Tokens(longSrc)
	rec.Eval("capacity-exact", longSrc, true)
	if got == want {
		rec.Count("capacity-exact-hits", 1)
	} else {
		rec.Count("capacity-exact-near", 1)
	}
	mk := func(s string) map[string]string {
		m := map[string]string{}
		for kk, v := range srcs {
			m[kk] = v
		}
		m["main"] = s
		return m
	}
	ctx := ctxToGo(c13Ctx())
	rs := renderFresh(mk(shortSrc), "main", ctx, nil)
	runtime.GC()
	runtime.GC()
	rl := renderFresh(mk(longSrc), "main", ctx, nil)
	cs := map[string]any{"short": core.Trunc(shortSrc, 1200), "long_len": len(longSrc), "tokens": got, "token_target": want, "long_head": core.Trunc(longSrc, 400)}
	if rl.Panicked {
		rec.Violate("panic", "panic@"+rl.Site, "engine panicked on the long version: "+rl.PanicVal, cs, rl.Stack)
		return
	}
	if rs.Panicked || rs.Err != nil {
		rec.Count("skipped-short-fails", 1)
		return
	}
	wantOut := strings.Replace(rs.Out, marker, marker+fill, -1)
	if rl.Err != nil || rl.Out != wantOut {
		i := 0
		for i < len(rl.Out) && i < len(wantOut) && rl.Out[i] == wantOut[i] {
			i++
		}
		rec.Violate("pad-invariance", core.SigHash("c14-cap", longSrc),
			fmt.Sprintf("padding to %d tokens / %d bytes changed how the template is read (err=%v): outputs differ at byte %d: got …%q want …%q; short source %s",
				got, len(longSrc), rl.Err, i, core.Trunc(rl.Out[min(i, len(rl.Out)):], 60), core.Trunc(wantOut[min(i, len(wantOut)):], 60), core.Q(core.Trunc(shortSrc, 400))), cs, "")
	}
}

// wild: an entry of the independently written corpus, padded in front and behind with literal text and/or comments
func (p *c14) wild(rec *core.Recorder, r *core.Rand, tier string) {
	we, ok := wildPick(r)
	if !ok {
		rec.Count("wild-corpus-missing", 1)
		return
	}
	srcs := we.Srcs()
	short := srcs[we.Render]
	targets := []int{4097, 4200, 8192, 20481, 65537}
	if tier == "thorough" {
		targets = append(targets, 100001)
	}
	target := targets[r.Intn(len(targets))]
	n := target - len(short)
	if n < 16 {
		n = 16
	}
	var front, back, frontVis, backVis string
	mk := func(k int) (string, string) {
		if k < 8 {
			k = 8
		}
		// comments only: the entry's main template may be rendered several times (loops, recursive includes), so literal
		// text pads would legitimately appear more than once
		return "{# " + c14Filler(r, k-6) + " #}", ""
	}
	side := r.Intn(3)
	if strings.HasSuffix(short, "\\") || strings.HasSuffix(short, "{") {
		side = 0 // a backslash or a brace directly before the pad's `{#` would change what the pad is
	}
	switch side {
	case 0:
		front, frontVis = mk(n)
	case 1:
		back, backVis = mk(n)
	default:
		front, frontVis = mk(n / 2)
		back, backVis = mk(n - n/2)
	}
	long := front + short + back
	rec.Eval("wild", we.ID+long[:min(len(long), 40)]+fmt.Sprint(len(long)), len(short) <= 4096 && len(long) > 4096)
	if len(short) <= 4096 && len(long) > 4096 {
		rec.Count("straddles-4096", 1)
	}
	ctx := we.Ctx(nil)
	rs := renderFresh(srcs, we.Render, ctx, nil)
	srcsL := we.Srcs()
	srcsL[we.Render] = long
	rl := renderFresh(srcsL, we.Render, we.Ctx(nil), nil)
	cs := map[string]any{"entry": we.ID, "short": core.Trunc(short, 800), "long_len": len(long), "front_len": len(front), "back_len": len(back)}
	if rl.Panicked {
		rec.Violate("panic", "panic@"+rl.Site, "engine panicked on the padded corpus entry: "+rl.PanicVal, cs, rl.Stack)
		return
	}
	if rs.Panicked || rs.Err != nil {
		rec.Count("skipped-short-fails", 1)
		return
	}
	want := frontVis + rs.Out + backVis
	if rl.Err != nil || rl.Out != want {
		i := 0
		for i < len(rl.Out) && i < len(want) && rl.Out[i] == want[i] {
			i++
		}
		rec.Violate("pad-invariance", "c14-wild:"+we.ID,
			fmt.Sprintf("padding corpus entry %s (%d -> %d bytes) changed how it is read (err=%v): outputs differ at byte %d: got …%q want …%q", we.ID, len(short), len(long), rl.Err, i,
				core.Trunc(rl.Out[min(i, len(rl.Out)):], 60), core.Trunc(want[min(i, len(want)):], 60)), cs, "")
	}
}

func (p *c14) Run(rec *core.Recorder, seed uint64, idx int, tier string) {
	r := core.NewRand("C14", seed, idx)
	if idx%6 == 5 {
		p.capacityExact(rec, r)
		return
	}
	if idx%6 == 2 {
		p.wild(rec, r, tier)
		return
	}
	if idx%30 == 7 {
		// small prefixes: a few bytes of literal text (with a backslash, a quote or a brace at every offset in turn) in
		// front of a template whose tags hold quoted strings and hash literals change the output by that text only
		tmpl := []string{
			"{% include 'card' with {'title': 'Hi', 'n': 1} %}|{{ v }}",
			"{{ {'a': 'x', 'b': \"y\"}|join('-') }}{% include 'card' with {'title': \"T\", 'n': 'N'} only %}",
			"{% set h = {'k': 'v', 'l': \"w\"} %}{{ h.k }}{{ h.l }}{{ 'q'|replace({'q': 'Q', 'x': \"X\"}) }}",
			"{% for k, x in {'a': 'p', 'b': 'q'} %}{{ k }}={{ x }};{% endfor %}{% include 'card' with {'title': v, 'n': [1, 'two']|length} %}",
		}[r.Intn(4)]
		off := r.Intn(24)
		mark := []string{"\\", "\\\\\\", "'", "\"", "\\'", "}", "#"}[r.Intn(7)]
		prefix := strings.Repeat("x", off) + mark + "y"
		if r.P(1, 4) {
			prefix = "{# " + strings.Repeat("c", off) + mark + " #}"
			if strings.HasSuffix(mark, "#") {
				prefix = "{# " + strings.Repeat("c", off) + " #}"
			}
		}
		srcs := map[string]string{"card": "[{{ title }}|{{ n }}]", "main": tmpl}
		ctx := map[string]interface{}{"v": "V"}
		base := renderFresh(srcs, "main", ctx, nil)
		srcs2 := map[string]string{"card": srcs["card"], "main": prefix + tmpl}
		got := renderFresh(srcs2, "main", ctx, nil)
		rec.Eval("small-prefixes", prefix+"\x00"+tmpl, true)
		rec.Count("small-prefix-cases", 1)
		visible := prefix
		if strings.HasPrefix(prefix, "{#") {
			visible = ""
		}
		if base.Panicked || base.Err != nil {
			rec.Count("skipped-base-fails", 1)
			return
		}
		if got.Panicked || got.Err != nil || got.Out != visible+base.Out {
			rec.Violate("pad-invariance", core.SigHash("c14-prefix", prefix+tmpl),
				fmt.Sprintf("%d bytes of literal text or comment in front of a template changed how its tags are read: with the prefix %s the output is %s (err=%v), without it %s", len(prefix), core.Q(prefix), core.Q(core.Trunc(got.Out, 200)), got.Err, core.Q(core.Trunc(base.Out, 200))),
				map[string]any{"template": tmpl, "prefix": prefix}, got.Stack)
		}
		return
	}
	// ---- base template
	var srcs map[string]string
	var main string
	var ps []mt.Piece
	var ctx map[string]interface{}
	pr := &mt.Printer{}
	corpus := c13Corpus()
	lexical := false
	if r.P(1, 4) {
		lexical = true
		k := r.Intn(len(c14Lexical))
		rec.Count(fmt.Sprintf("lexical:%02d", k), 1)
		ps = c14LexicalPieces(c14Lexical[k])
		main = "main"
		srcs = map[string]string{"inc": "I{{ w }}", "lib": "{% macro mm(x) %}<{{ x }}>{% endmacro %}", "base": "B[{% block c %}c0{% endblock %}]", "main": mt.Join(ps)}
		ctx = ctxToGo(c13Ctx())
	} else if r.P(2, 5) {
		e := corpus[r.Intn(len(corpus))]
		set := e.set()
		srcs, main = pr.SourceSet(set), "main"
		ps = pr.Pieces(set.T["main"].Body)
		ctx = ctxToGo(c13Ctx())
	} else {
		ts := GenTSet(r.Fork(), "L")
		srcs = pr.SourceSet(ts.Set)
		main = ts.Entries[r.Intn(len(ts.Entries))]
		ps = pr.Pieces(ts.Set.T[main].Body)
		ctx = ts.GoCtx()
	}
	if !lexical && r.P(1, 3) {
		ps = padPieces(r, ps)
		tags := dashable(ps)
		if len(tags) > 30 {
			tags = tags[:30]
		}
		mask := r.U64() & r.U64() & (1<<uint(2*len(tags)) - 1)
		ps, _, _ = applyDashes(ps, tags, mask)
	}
	// ---- insertion points (between pieces; not inside a verbatim body)
	var points []int
	for i := 0; i <= len(ps); i++ {
		if i > 0 && ps[i-1].Kind == "verbatim" {
			continue
		}
		if i < len(ps) && ps[i].Kind == "endverbatim" {
			continue
		}
		points = append(points, i)
	}
	mode := r.Intn(4)
	var chosen []int
	switch mode {
	case 0, 1: // a few pads, big lengths
		for _, pt := range points {
			if r.P(1, 3) {
				chosen = append(chosen, pt)
			}
		}
		if len(chosen) == 0 {
			chosen = []int{points[r.Intn(len(points))]}
		}
	case 2: // one pad that puts a chosen tag at a chosen offset
		chosen = []int{points[r.Intn(len(points))]}
	default: // many pads (token-count classes)
		chosen = points
		if r.Bool() {
			// all pads at one point: the total token count then moves in small steps from case to case
			chosen = []int{points[r.Intn(len(points))]}
		}
	}
	baseLen := 0
	for _, pc := range ps {
		baseLen += len(pc.String())
	}
	targets := []int{4095, 4096, 4097, 8192, 20479, 20481, 65535, 65537}
	if tier == "thorough" {
		targets = append(targets, 99999, 100001, 300000)
	}
	target := targets[r.Intn(len(targets))]
	type pad struct {
		marker, filler string
		comment        bool
	}
	pads := map[int]pad{}
	reps := 1
	if mode == 3 {
		// many small comment/text pads: repeat pads at every point so that the token count crosses a class
		reps = []int{3, 12, 40, 130, r.Range(1, 140), r.Range(60, 140), r.Range(100, 130)}[r.Intn(7)]
	}
	fillTotal := target - baseLen - len(chosen)*8
	if fillTotal < len(chosen)*4 {
		fillTotal = len(chosen) * 4
	}
	var shortB, longB strings.Builder
	expectRepl := []string{}
	tagAt := -1
	off := 0
	k := 0
	for i := 0; i <= len(ps); i++ {
		isChosen := false
		for _, c := range chosen {
			if c == i {
				isChosen = true
			}
		}
		if isChosen {
			marker := fmt.Sprintf("¤%03d¤", k)
			k++
			pd := pad{marker: marker}
			n := fillTotal / len(chosen)
			if mode == 2 {
				// make the next piece start at offset 4095..4097 of the long source
				want := 4095 + r.Intn(3)
				n = want - off - len(marker)
				if n < 2 {
					n = 2
				}
				tagAt = want
			}
			if mode == 3 {
				var f strings.Builder
				var vis strings.Builder
				for j := 0; j < reps; j++ {
					if j%2 == 0 {
						f.WriteString("{# C" + fmt.Sprint(j) + " #}")
					} else {
						f.WriteString("X" + fmt.Sprint(j) + "X{# c #}")
						vis.WriteString("X" + fmt.Sprint(j) + "X")
					}
				}
				pd.filler = f.String()
				expectRepl = append(expectRepl, marker, marker+vis.String())
				shortB.WriteString(marker)
				longB.WriteString(marker + pd.filler)
				off += len(marker) + len(pd.filler)
			} else if mode != 2 && r.P(1, 4) {
				// a bare comment (no marker in front): short in the baseline, long in the variant; comments
				// contribute nothing, so both outputs must be identical even when the comment touches a dashed delimiter
				if n < 8 {
					n = 8
				}
				k--
				short := "{# s #}"
				long := "{# " + c14Filler(r, n-6) + " #}"
				shortB.WriteString(short)
				longB.WriteString(long)
				off += len(long)
				rec.Count("bare-comment-pads", 1)
			} else {
				pd.comment = r.P(1, 3)
				fl := c14Filler(r, n)
				if pd.comment {
					// a comment pad of the same length
					if n < 8 {
						n = 8
					}
					fl = "{# " + c14Filler(r, n-6) + " #}"
					expectRepl = append(expectRepl, marker, marker)
				} else {
					expectRepl = append(expectRepl, marker, marker+fl)
				}
				pd.filler = fl
				shortB.WriteString(marker)
				longB.WriteString(marker + fl)
				off += len(marker) + len(fl)
			}
			pads[i] = pd
		}
		if i < len(ps) {
			s := ps[i].String()
			shortB.WriteString(s)
			longB.WriteString(s)
			off += len(s)
		}
	}
	shortSrc, longSrc := shortB.String(), longB.String()
	mk := func(s string) map[string]string {
		m := map[string]string{}
		for kk, v := range srcs {
			m[kk] = v
		}
		m[main] = s
		return m
	}
	straddle := len(shortSrc) <= 4096 && len(longSrc) > 4096
	rec.Eval("case", longSrc, straddle || mode == 3)
	if straddle {
		rec.Count("straddles-4096", 1)
	}
	if tagAt >= 0 {
		rec.Count("tag-at-4096", 1)
	}
	if mode == 3 {
		rec.Count("token-count-crossings", 1)
	}
	if len(longSrc) >= 65536 {
		rec.Count("sources>=64K", 1)
	}
	rec.Max("max:source-bytes", len(longSrc))
	rs := renderFresh(mk(shortSrc), main, ctx, nil)
	if mode == 3 && core.Hash64(longSrc)%2 == 0 {
		// empty the engine's sync.Pools: a freshly allocated tokenizer has its initial buffer capacities again, which pooled
		// ones (grown by earlier parses in this process) hide
		runtime.GC()
		runtime.GC()
		rec.Count("fresh-pool-renders", 1)
	}
	rl := renderFresh(mk(longSrc), main, ctx, nil)
	cs := map[string]any{"short": core.Trunc(shortSrc, 1200), "long_len": len(longSrc), "short_len": len(shortSrc), "pads": len(chosen), "mode": mode, "target": target, "long_head": core.Trunc(longSrc, 600)}
	if rl.Panicked {
		rec.Violate("panic", "panic@"+rl.Site, "engine panicked on the long version: "+rl.PanicVal, cs, rl.Stack)
		return
	}
	if rs.Err != nil && !rs.Panicked && rl.Err == nil {
		// whether a template is accepted is part of how it is read
		rec.Violate("pad-invariance", core.SigHash("c14-accept", longSrc),
			fmt.Sprintf("padding changed whether the template is accepted: the short source (%d bytes) fails with %v, the long one (%d bytes) renders; short source %s", len(shortSrc), rs.Err, len(longSrc), core.Q(core.Trunc(shortSrc, 400))), cs, "")
		return
	}
	if rs.Panicked || rs.Err != nil {
		rec.Count("skipped-short-fails", 1)
		rec.Notes["short-fails"] = core.Trunc(rs.ErrStr()+" | "+shortSrc, 500)
		return
	}
	want := strings.NewReplacer(expectRepl...).Replace(rs.Out)
	if rl.Err != nil || rl.Out != want {
		i := 0
		for i < len(rl.Out) && i < len(want) && rl.Out[i] == want[i] {
			i++
		}
		rec.Violate("pad-invariance", core.SigHash("c14", longSrc),
			fmt.Sprintf("padding changed how the template is read (short source %d bytes, long %d bytes, err=%v): outputs differ at byte %d: got …%q want …%q; short source %s",
				len(shortSrc), len(longSrc), rl.Err, i, core.Trunc(rl.Out[min(i, len(rl.Out)):], 60), core.Trunc(want[min(i, len(want)):], 60), core.Q(core.Trunc(shortSrc, 400))), cs, "")
		return
	}
	if rec.WantSample("case") {
		rec.Sample("case", cs)
	}
}
