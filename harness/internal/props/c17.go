package props

import (
	"bytes"
	"errors"
	"fmt"
	"io"
	"strings"

	"github.com/semihalev/twig"

	"verifharness/internal/core"
)

// C17 — failures during rendering always surface as errors that wrap their cause.
type c17 struct{ base }

func init() {
	Register(&c17{base{
		id: "C17", level: "fault_enumeration",
		technique: "record-then-inject fault enumeration: pass 0 renders a program with counting spies (filters, functions, tests, loader reads) and records the N callback invocations that happen; passes 1..N make exactly invocation k fail with a unique sentinel and check err != nil, errors.Is(err, sentinel) and empty output; plus unresolvable-name and tolerance cases",
		rule: "case = program assembled from callback-bearing fragments (print, chain, if/elseif/else, for sequence/body/else, set, apply, spaceless, block, overriding block, parent(), layout, include with every option set, with-values, macro body/argument/default, imported and from-imported macros, array/hash elements, conditional branches, operands, tests, is-defined operands, do) rendered through Render and RenderTo, debug off/on; every invocation observed in pass 0 is failed once. " +
			"Non-trivial: a program with >= 5 recorded invocations. Distinct = distinct (templates, render path).",
		assumptions: []string{
			"only failures of invocations that really happen are injected, so no reachability reasoning is needed",
			"error text is not inspected; loader failures other than not-found must surface even under ignore missing",
			"documented tolerances (undefined variables and attributes print as empty, ignore missing) must keep working and are checked as the converse",
		},
		quick: 40000, thorough: 1200000, minQuick: 5000, minThorough: 100000,
	}})
}

func (p *c17) Shards(string) int         { return 16 }
func (p *c17) CaseTimeoutSec(string) int { return 120 }
func (p *c17) RequiredCounters(string) []string {
	return []string{"injected-runs", "kind:filter", "kind:function", "kind:test", "kind:loader", "unresolvable-name-cases", "tolerance-cases"}
}

type c17Sentinel struct{ k int }

func (s *c17Sentinel) Error() string { return fmt.Sprintf("verif injected failure #%d", s.k) }

type c17Injector struct {
	n      int
	failAt int
	kinds  []string
	sent   *c17Sentinel
	paused bool       // invocations are neither counted nor failed (warm-up render)
	loader *c17Loader // the loader that owns the templates of the engine built with this injector
}

func (in *c17Injector) hit(kind string) error {
	if in.paused {
		return nil
	}
	in.n++
	in.kinds = append(in.kinds, kind)
	if in.n == in.failAt {
		in.sent = &c17Sentinel{in.n}
		if kind != "loader" && in.n%3 == 0 {
			// a callback failure that also carries a "not found" cause (a function that loads something): still a failure of
			// the callback, not a missing template of the include that happens to surround it
			return fmt.Errorf("callback could not load its data: %w", errors.Join(in.sent, twig.ErrTemplateNotFound))
		}
		return in.sent
	}
	return nil
}

type c17Loader struct {
	m     map[string]string
	inj   *c17Injector
	mtime int64
}

// GetModifiedTime makes the loader timestamp-aware (it only matters on engines with auto-reload on)
func (l *c17Loader) GetModifiedTime(name string) (int64, error) {
	if _, ok := l.m[name]; !ok {
		return 0, fmt.Errorf("%w: %s", twig.ErrTemplateNotFound, name)
	}
	return l.mtime, nil
}

// c17Warm renders once without counting or failing anything, on an engine with auto-reload on, and then moves every
// template's modification time forward: the render that follows finds its templates cached and stale, so every loader
// read is a re-read of a template the engine already has.
func c17Warm(e *twig.Engine, inj *c17Injector, main string, viaWriter bool) {
	e.SetAutoReload(true)
	inj.loader.mtime = 100
	inj.paused = true
	c17Render(e, main, viaWriter)
	inj.paused = false
	inj.loader.mtime = 200
}

func (l *c17Loader) Load(name string) (string, error) {
	s, ok := l.m[name]
	if !ok {
		return "", fmt.Errorf("%w: %s", twig.ErrTemplateNotFound, name)
	}
	if err := l.inj.hit("loader"); err != nil {
		return "", err
	}
	return s, nil
}
func (l *c17Loader) Exists(name string) bool { _, ok := l.m[name]; return ok }

func c17Engine(srcs map[string]string, inj *c17Injector, debug bool) *twig.Engine {
	e := twig.New()
	own := &c17Loader{m: srcs, inj: inj}
	inj.loader = own
	// the loader that owns the templates stands alone, before, or after loaders that simply do not have them (chosen by
	// the sources, so that every pass of one case builds the same engine)
	switch core.Hash64(canonSrcs(srcs)) % 4 {
	case 0:
		e.RegisterLoader(own)
	case 1:
		// ... or before a loader that has templates of the same names: the first loader that has a name decides, so a failure
		// of its read is the failure of the lookup, not a reason to serve the other loader's template
		e.RegisterLoader(own)
		shadow := map[string]string{"unrelated_template": "u"}
		for name := range srcs {
			shadow[name] = "SHADOW<" + name + ">"
		}
		e.RegisterLoader(twig.NewArrayLoader(shadow))
	case 2:
		e.RegisterLoader(twig.NewArrayLoader(map[string]string{"unrelated_template": "u"}))
		e.RegisterLoader(own)
	default:
		e.RegisterLoader(twig.NewArrayLoader(map[string]string{"unrelated_template": "u"}))
		e.RegisterLoader(own)
		e.RegisterLoader(twig.NewChainLoader([]twig.Loader{twig.NewArrayLoader(map[string]string{"unrelated_template2": "u"})}))
	}
	for _, n := range []string{"sf1", "sf2", "spaceless"} {
		name := n
		e.AddFilter(name, func(v interface{}, args ...interface{}) (interface{}, error) {
			if err := inj.hit("filter"); err != nil {
				return nil, err
			}
			return v, nil
		})
	}
	for _, n := range []string{"sg1", "sg2"} {
		name := n
		_ = name
		e.AddFunction(n, func(args ...interface{}) (interface{}, error) {
			if err := inj.hit("function"); err != nil {
				return nil, err
			}
			if len(args) > 0 {
				return args[0], nil
			}
			return "g", nil
		})
	}
	e.AddTest("st1", func(v interface{}, args ...interface{}) (bool, error) {
		if err := inj.hit("test"); err != nil {
			return false, err
		}
		return true, nil
	})
	if debug {
		e.SetDebug(true)
	}
	return e
}

var c17Fragments = []string{
	"{{ v|sf1 }}", "{{ v|sf1|sf2|sf1 }}", "{{ sg1(1) }}",
	"{% if sg1(1) %}{{ v|sf2 }}{% elseif sg2(0) %}x{% else %}{{ sg1(2) }}{% endif %}",
	"{% if sg1(0) %}a{% elseif sg2(1) %}{{ v|sf1 }}{% else %}c{% endif %}",
	"{% if sg1(0) %}a{% else %}{{ v|sf2 }}{% endif %}",
	"{% for i in sg1([1, 2, 3]) %}{{ i|sf1 }}{% else %}{{ sg2(1) }}{% endfor %}",
	"{% for i in [] %}x{% else %}{{ v|sf2 }}{% endfor %}",
	"{% for i in [1, 2] %}{% for j in [1, 2] %}{{ sg1(j) }}{% endfor %}{% endfor %}",
	"{% for i in xs|sf1 %}{{ i }}{% endfor %}",
	// loops over strings, maps and ranges (each kind of sequence has its own iteration code)
	"{% for c in 'héy' %}{{ c|sf1 }}{% endfor %}", "{% for k, c in v %}{{ sg1(c) }}{{ k }}{% endfor %}", "{% for c in 'ab' %}{% for d in 'cd' %}{{ sg2(d) }}{% endfor %}{% endfor %}",
	"{% for k, x in {'a': 1, 'b': 2} %}{{ x|sf1 }}{{ sg1(k) }}{% endfor %}", "{% for k, x in m %}{{ sg2(x) }}{% endfor %}", "{% for i in range(1, 2) %}{{ sg1(i) }}{% else %}e{% endfor %}",
	"{% for c in 'xyz'|sf1 %}{% if c is st1 %}t{% endif %}{% endfor %}",
	"{% set q = sg1(5) %}{{ q|sf2 }}",
	"{% apply sf1 %}body {{ v|sf2 }}{% endapply %}",
	"{% spaceless %}<a> {{ v|sf1 }} </a> <b></b>{% endspaceless %}",
	"{% block b1 %}{{ v|sf1 }}{% endblock %}",
	"{% include 'inc' with {'w': sg1(7)} %}", "{% include 'inc' ignore missing %}", "{% include 'inc' only %}", "{% include 'inc' with {'w': v|sf2} only %}", "{% include 'in' ~ sg1('c') %}",
	"{{ mm(sg1(1)) }}", "{{ mm() }}", "{{ mm(1, sg2(2)) }}",
	// macro calls whose body can fail, consumed by something other than a bare print tag
	"{{ mm(1)|raw }}", "{{ mm(v)|sf2 }}", "{% set mq = mm(2) %}{{ mq }}", "{% import 'lib' as L2 %}{{ L2.lm(v)|raw }}", "{% from 'lib' import lm as lm3 %}{{ lm3(1)|raw }}{% set ml = lm3(2) %}{{ ml }}",
	"{% for i in [1, 2] %}{{ mm(i)|raw }}{% endfor %}", "{{ _self.mm(3)|raw }}", "{% apply sf2 %}{{ mm(4) }}{% endapply %}", "{% if mm(5) %}t{% endif %}", "{{ [mm(6)]|length }}",
	"{% import 'lib' as L %}{{ L.lm(v) }}", "{% from 'lib' import lm as lm2 %}{{ lm2(sg1(3)) }}",
	"{{ [sg1(1), 2]|length }}", "{{ {'k': sg1(2)}|length }}", "{{ yes ? sg1(3) : sg2(4) }}", "{{ no ? sg1(3) : sg2(4) }}",
	"{% if v is st1 %}t{% endif %}", "{% if (v|sf1) is defined %}d{% endif %}", "{% if sg1(m).k is defined %}d{% endif %}", "{% if v is not st1 %}t{% endif %}",
	// a test applied to an undefined, null or missing operand is still invoked, and still fails the render when it fails
	"{% if zz is st1 %}t{% else %}e{% endif %}", "{{ null is st1 ? 'y' : 'n' }}", "{{ m.nokey is st1 ? 'y' : 'n' }}", "{% if zz is not st1 %}t{% endif %}", "{% for i in [null] %}{% if i is st1 %}t{% endif %}{% endfor %}",
	"{{ zz|sf1 }}", "{{ null|sf2 }}", "{{ m.nokey|sf1|default('d') }}", "{{ sg1(zz) }}", "{{ sg2(null)|default('d') }}",
	"{{ sg1(1) + sg2(2) }}", "{{ -sg1(1) }}", "{{ xs[sg1(0)] }}", "{{ sg1(m).k }}", "{{ sg1(1) and sg2(1) }}", "{{ sg1(0) or sg2(1) }}", "{{ v ~ sg1('x') }}", "{{ sg1(1) in xs }}", "{{ zz|default(sg1(4)) }}", "{{ v|sf1(sg2(1)) }}",
	"{% do sg1(9) %}", "{{ sg1(sg2(sg1(1))) }}", "{{ not sg1(0) }}", "{{ (sg1(2) > 1) ? 'y' : 'n' }}",
	// a failing operand under every kind of built-in filter (tolerant ones like default must not swallow it)
	"{{ sg1(v)|default('d') }}", "{{ sg1(m).k|default('d') }}", "{{ (v|sf1)|default('d') }}", "{{ sg1(zz)|default('d')|sf2 }}", "{{ sg2(v)|upper }}", "{{ sg1(xs)|length }}", "{{ sg1(xs)|first }}", "{{ sg1(xs)|join(',') }}",
	"{{ sg1(v)|e }}", "{{ sg1(v)|raw }}", "{{ sg1(m)|keys|join }}", "{{ sg1(xs)|slice(0, 1)|join }}", "{{ sg1(xs)|merge([1])|length }}", "{{ sg1(m)|json_encode }}", "{{ sg1(v)|trim|sf1 }}", "{{ sg1(xs)|sort|reverse|join }}",
	// calls with several arguments of which an early one is computed by something that can fail
	"{{ sg1(sg2(1), 2) }}", "{{ sg2(v|sf1, 3, sg1(4)) }}", "{{ mm(sg1(1), 2) }}", "{{ _self.mm(v|sf2, sg2(2)) }}", "{% if v is st1(sg1(1), 2) %}t{% else %}e{% endif %}", "{{ max(sg1(1), 2, 3) }}", "{{ [sg1(1), 2]|join(sg2('-'), 'x') }}",
	// the defined test on a subscript whose container is computed by something that can fail
	"{% if sg1(xs)[0] is defined %}d{% else %}u{% endif %}", "{{ (xs|sf1)[0] is defined ? 'y' : 'n' }}", "{{ (xs|sf1)[1] is not defined ? 'y' : 'n' }}", "{{ [sg2(1)][0] is defined ? 1 : 0 }}", "{{ sg1(xs)[sg2(0)] is defined ? 1 : 0 }}",
	"{% for i in sg1(xs)|default([]) %}{{ i }}{% endfor %}", "{% if sg1(zz)|default(false) %}t{% endif %}", "{% set q = sg1(zz)|default('d') %}{{ q }}", "{{ sg1(zz) is defined ? 'y' : 'n' }}", "{{ sg1(zz) is empty ? 'y' : 'n' }}", "{{ sg1(zz) is null ? 'y' : 'n' }}",
}

func (p *c17) build(r *core.Rand) (map[string]string, string) {
	srcs := map[string]string{
		"inc": "[inc {{ w|sf1 }}{{ sg2(1) }}]",
		"lib": "{% macro lm(x) %}<{{ x|sf1 }}{{ sg2(2) }}>{% endmacro %}",
		"lay": "L{{ sg1(1) }}({% block c %}{{ v|sf2 }}{% endblock %}){% block d %}d{{ sg2(3) }}{% endblock %}",
	}
	n := r.Range(2, 7)
	var b strings.Builder
	b.WriteString("{% macro mm(a, b = sg2(8)) %}({{ a|sf1 }}{{ b }}){% endmacro %}")
	for i := 0; i < n; i++ {
		b.WriteString(c17Fragments[r.Intn(len(c17Fragments))])
		b.WriteString("·")
	}
	body := b.String()
	switch r.Intn(4) {
	case 0:
		srcs["main"] = "{% extends 'lay' %}{% block c %}" + body + "{{ parent() }}{% endblock %}"
	case 1:
		srcs["main"] = "{% extends 'mid' %}{% block c %}" + body + "{% endblock %}"
		srcs["mid"] = "{% extends 'lay' %}{% block d %}{{ v|sf1 }}{{ parent() }}{% endblock %}"
	default:
		srcs["main"] = body
	}
	return srcs, "main"
}

func c17Ctx() map[string]interface{} {
	return map[string]interface{}{"v": "val", "xs": []interface{}{1, 2}, "yes": true, "no": false, "m": map[string]interface{}{"k": 1}}
}

// run performs one render through the chosen path; returns output, error.
func c17Render(e *twig.Engine, name string, viaWriter bool) (string, error) {
	if viaWriter {
		var buf bytes.Buffer
		err := e.RenderTo(&buf, name, c17Ctx())
		return buf.String(), err
	}
	return e.Render(name, c17Ctx())
}

func (p *c17) Run(rec *core.Recorder, seed uint64, idx int, tier string) {
	twig.SetDebugWriter(io.Discard)
	r := core.NewRand("C17", seed, idx)
	if idx%10 == 9 {
		p.unresolvable(rec, r)
		return
	}
	if idx%10 == 8 {
		p.tolerances(rec, r)
		return
	}
	srcs, main := p.build(r)
	if r.P(1, 4) {
		// every template lives in a directory and names the others relative to itself ('./inc', './lay', ...)
		rel := map[string]string{}
		for n, src := range srcs {
			for _, other := range []string{"inc", "lib", "lay", "mid"} {
				src = strings.ReplaceAll(src, "'"+other+"'", "'./"+other+"'")
			}
			src = strings.ReplaceAll(src, "'in' ~", "'./in' ~")
			rel["d/"+n] = src
		}
		srcs, main = rel, "d/"+main
		rec.Count("programs-with-relative-names", 1)
	}
	viaWriter := r.P(1, 3)
	debug := r.P(1, 4)
	warm := r.P(1, 4)
	path := fmt.Sprintf("writer=%v debug=%v warm=%v", viaWriter, debug, warm)
	cs := map[string]any{"templates": srcs, "path": path}
	if warm {
		rec.Count("programs-on-warm-autoreload-engines", 1)
	}
	run := func(in *c17Injector) (string, error) {
		e := c17Engine(srcs, in, debug)
		if warm {
			c17Warm(e, in, main, viaWriter)
		}
		return c17Render(e, main, viaWriter)
	}
	// ---- pass 0
	inj := &c17Injector{}
	var out0 string
	var err0 error
	panicked, site, val, stack := core.Guard(func() { out0, err0 = run(inj) })
	twig.SetDebugLevel(twig.DebugOff)
	if panicked {
		rec.Violate("panic", "panic@"+site, "engine panicked: "+val, cs, stack)
		return
	}
	if err0 != nil {
		rec.HarnessFault("C17 program fails without injection: %v\n%v", err0, srcs)
		return
	}
	n := inj.n
	rec.Eval("program", canonSrcs(srcs)+path, n >= 5)
	rec.Max("max:invocations-per-program", n)
	_ = out0
	// ---- passes 1..N
	for k := 1; k <= n; k++ {
		in := &c17Injector{failAt: k}
		var out string
		var err error
		panicked, site, val, stack := core.Guard(func() { out, err = run(in) })
		twig.SetDebugLevel(twig.DebugOff)
		rec.Count("injected-runs", 1)
		if panicked {
			rec.Violate("panic", "panic@"+site, "engine panicked while a callback failed: "+val, cs, stack)
			return
		}
		if in.sent == nil {
			// invocation k did not happen in this pass (non-deterministic evaluation order?)
			rec.Inconc("program %d: invocation %d of pass 0 was not reached again", idx, k)
			continue
		}
		kind := in.kinds[k-1]
		rec.Count("kind:"+kind, 1)
		csk := map[string]any{"templates": srcs, "path": path, "failed_invocation": k, "of": n, "kind": kind}
		if err == nil {
			rec.Violate("fault-injection", "error-swallowed:"+kind,
				fmt.Sprintf("invocation %d of %d (a %s) failed with a sentinel error, yet the render returned err == nil and output %s; main = %s", k, n, kind, core.Q(core.Trunc(out, 150)), core.Q(core.Trunc(srcs[main], 400))), csk, "")
			return
		}
		if !errors.Is(err, error(in.sent)) {
			var as *c17Sentinel
			if !errors.As(err, &as) {
				rec.Violate("fault-injection", "cause-not-wrapped:"+kind,
					fmt.Sprintf("invocation %d (a %s) failed with a sentinel; the returned error %q does not wrap it (errors.Is/As false); main = %s", k, kind, core.Trunc(err.Error(), 200), core.Q(core.Trunc(srcs[main], 400))), csk, "")
				return
			}
		}
		if !viaWriter && out != "" {
			rec.Violate("fault-injection", "output-with-error:"+kind, fmt.Sprintf("Render returned the non-empty string %s together with an error", core.Q(core.Trunc(out, 150))), csk, "")
			return
		}
	}
	if rec.WantSample("program") {
		rec.Sample("program", map[string]any{"templates": srcs, "path": path, "invocations": n, "kinds": strings.Join(inj.kinds, ",")})
	}
}

var c17Unresolvable = []string{
	"{{ v|nosuchfilter }}", "{{ v|sf1|nosuchfilter|sf2 }}", "{{ nosuchfunction(1) }}", "{% if v is nosuchtest %}x{% endif %}", "{% for i in xs|nosuchfilter %}x{% endfor %}", "{{ nosuchfunction(1)[0] is defined ? 1 : 0 }}", "{{ sg1(nosuchfunction(1), 2) }}", "{{ mm(v|nosuchfilter, 2) }}", "{% if v is st1(nosuchfunction(), 2) %}t{% endif %}", "{% if (xs|nosuchfilter)[0] is defined %}d{% else %}u{% endif %}", "{{ nosuchfunction()[0] is not defined ? 1 : 0 }}", "{% apply nosuchfilter %}x{% endapply %}",
	"{% set q = nosuchfunction() %}", "{% import 'lib' as L %}{{ L.nomacro() }}", "{% from 'lib' import nomacro %}", "{% from 'lib' import lm, nomacro as z %}{{ lm(1) }}", "{{ nomacro_at_all(1) }}", "{{ _self.nomacro() }}",
	"{% include 'no_such_template' %}", "{% include 'no_such_template' with {'a': 1} only %}", "{% import 'no_such_template' as X %}", "{% from 'no_such_template' import a %}", "{% include 'inc_bad' %}", "{% include 'inc_bad' ignore missing %}",
	"{% include 'inc_nested_missing' ignore missing %}", "{% include 'inc_ext_missing' ignore missing %}", "{% include 'inc_imp_missing' ignore missing %}", "{% include 'inc_nested_missing' %}",
	"{{ mm(nosuchfunction()) }}", "{{ [1, v|nosuchfilter]|length }}", "{{ yes ? nosuchfunction() : 1 }}", "{% if no %}{% elseif v|nosuchfilter %}x{% endif %}", "{{ zz|default(v|nosuchfilter) }}", "{% do nosuchfunction() %}",
}

func (p *c17) unresolvable(rec *core.Recorder, r *core.Rand) {
	frag := c17Unresolvable[r.Intn(len(c17Unresolvable))]
	srcs, main := p.build(r)
	srcs["inc_bad"] = "x{{ v|nosuchfilter }}y"
	srcs["inc_nested_missing"] = "x{% include 'nowhere_to_be_found' %}y"
	srcs["inc_ext_missing"] = "{% extends 'nowhere_to_be_found' %}{% block b %}x{% endblock %}"
	srcs["inc_imp_missing"] = "{% import 'nowhere_to_be_found' as q %}x"
	// put the fragment at a random structural place
	wrap := []string{"%s", "pre{{ v|sf1 }}%s", "{% for i in [1, 2] %}%s{% endfor %}", "{% if yes %}%s{% endif %}", "{% block ub %}%s{% endblock %}", "{% macro um() %}%s{% endmacro %}{{ um() }}", "{% apply sf1 %}%s{% endapply %}", "{% spaceless %}%s{% endspaceless %}"}[r.Intn(8)]
	body := "{% macro mm(a, b = 1) %}({{ a }}{{ b }}){% endmacro %}" + strings.Replace(wrap, "%s", frag, 1)
	if strings.Contains(srcs["main"], "extends 'lay'") && r.Bool() {
		srcs["main"] = "{% extends 'lay' %}{% block c %}" + body + "{% endblock %}"
	} else {
		srcs["main"] = body
	}
	viaWriter := r.P(1, 3)
	rec.Eval("unresolvable", canonSrcs(srcs), true)
	rec.Count("unresolvable-name-cases", 1)
	cs := map[string]any{"templates": srcs, "fragment": frag}
	var out string
	var err error
	panicked, site, val, stack := core.Guard(func() { out, err = c17Render(c17Engine(srcs, &c17Injector{}, false), main, viaWriter) })
	if panicked {
		rec.Violate("panic", "panic@"+site, "engine panicked: "+val, cs, stack)
		return
	}
	if err == nil {
		rec.Violate("unresolvable-name", "unresolvable-swallowed:"+frag,
			fmt.Sprintf("a name that cannot be resolved (%s) produced err == nil and output %s", frag, core.Q(core.Trunc(out, 150))), cs, "")
		return
	}
	if !viaWriter && out != "" {
		rec.Violate("unresolvable-name", "output-with-error", "Render returned output together with an error: "+core.Q(core.Trunc(out, 100)), cs, "")
		return
	}
	if strings.Contains(frag, "no_such_template") && !errors.Is(err, twig.ErrTemplateNotFound) {
		rec.Violate("unresolvable-name", "missing-template-not-ErrTemplateNotFound", fmt.Sprintf("a missing template produced an error that does not match ErrTemplateNotFound: %v", err), cs, "")
	}
	if rec.WantSample("unresolvable") {
		rec.Sample("unresolvable", cs)
	}
}

func (p *c17) tolerances(rec *core.Recorder, r *core.Rand) {
	cases := []struct{ src, want string }{
		{"a{{ undefined_var }}b", "ab"}, {"a{{ m.nokey }}b", "ab"}, {"a{{ undefined_var.x.y }}b", "ab"}, {"a{% include 'no_such_template' ignore missing %}b", "ab"},
		{"a{{ undefined_var|default('d') }}b", "adb"}, {"a{% if undefined_var %}x{% else %}y{% endif %}b", "ayb"}, {"a{% for i in undefined_var %}x{% else %}e{% endfor %}b", "aeb"},
		{"a{{ m.k }}{{ m['nokey'] }}b", "a1b"}, {"a{% include 'no_such_template' ignore missing with {'q': 1} only %}b", "ab"}, {"a{{ xs[0] }}b", "a1b"},
	}
	c := cases[r.Intn(len(cases))]
	rec.Eval("tolerance", c.src, true)
	rec.Count("tolerance-cases", 1)
	srcs := map[string]string{"main": c.src}
	var out string
	var err error
	panicked, site, val, stack := core.Guard(func() { out, err = c17Render(c17Engine(srcs, &c17Injector{}, false), "main", false) })
	cs := map[string]any{"templates": srcs}
	if panicked {
		rec.Violate("panic", "panic@"+site, "engine panicked: "+val, cs, stack)
		return
	}
	if err != nil || out != c.want {
		rec.Violate("tolerance", "tolerance-broken:"+c.src, fmt.Sprintf("documented tolerance no longer holds: %s gave %q err=%v, want %q", c.src, out, err, c.want), cs, "")
	}
}
