package props

import (
	"errors"
	"fmt"
	"regexp"
	"strings"

	"github.com/semihalev/twig"

	"verifharness/internal/core"
)

// C06 — a sandboxed include can never run a filter or function the policy forbids.
type c06 struct {
	base
	afterDisable bool // this case switches the engine-wide sandbox mode off again after EnableSandbox
	bothForms    bool // the forbidden name is registered as a filter and as a function; the policy allows the other form
	bothKind     string
}

func init() {
	Register(&c06{base: base{
		id: "C06", level: "exploration",
		technique: "spy monitor: every filter/function is a logging spy; any logged invocation of a name the policy forbids between entry and exit of a sandboxed include is a violation; errors.As(*SecurityViolation) for straight-line uses; position x route x kind x policy grid run exhaustively",
		rule: "case = (syntactic position of the forbidden name: 22 positions incl. every place of a filter chain, for sequence, apply, arguments, conditions, defaults, literals, set, inner with-hash) x (route from the sandbox boundary: direct, inner include plain/only/with, parent layout, overriding block, parent(), imported macro, from-imported macro, depth 3, a macro of a library the includer imported whose own top-level import runs a helper's top-level code — decided by a call count against the same main template without its sandboxed include) x {filter, function} x 4 policies (edited default policy, custom policy, forbidden built-in name, forbidden name equal to a built-in fallback). " +
			"Checked: no forbidden spy call; the render fails with a *SecurityViolation; the same template with the name allowed renders exactly like the unsandboxed render; the including template may use the name outside the include. " +
			"Non-trivial: every grid point. Distinct = distinct (templates, policy).",
		assumptions: []string{
			"the with-expressions of the sandboxed include itself are written in the outer template and evaluated with outer permissions",
			"macro calls count as function calls for the policy check (observed behaviour), so macro names used inside the sandbox are allowed functions",
		},
		quick: 41*16*2*4*2 + 24000, thorough: 41*16*2*4*2 + 400000, minQuick: 3000, minThorough: 60000,
	}})
}

func (p *c06) RequiredCounters(string) []string {
	return []string{"expected-violation-errors", "allowed-twin-renders", "outer-permission-checks", "differential-spy-cases-with-calls-outside-the-sandbox"}
}

type c06Policy struct {
	filters, functions map[string]bool
}

func (p *c06Policy) IsFunctionAllowed(n string) bool { return p.functions[n] }
func (p *c06Policy) IsFilterAllowed(n string) bool   { return p.filters[n] }
func (p *c06Policy) IsTagAllowed(string) bool        { return true }

type c06Spy struct {
	log []string
}

// positions: %F = application of the forbidden name to `v`, written for kind filter ("v|X") or function ("X(v)")
var c06Positions = []string{
	"{{ %F }}",
	"{{ v|okf|X_LAST }}",
	"{{ %F|okf }}",
	"{{ v|okf|X_MID|okf }}",
	"{% for i in X_SEQ %}{{ i }}{% endfor %}",
	"{% apply X_APPLY %}body{% endapply %}",
	"{{ zz|default(%F) }}",
	"{{ okg(%F) }}",
	"{% if %F %}y{% endif %}",
	"{% if no %}a{% elseif %F %}b{% endif %}",
	"{% macro pm(a = %F) %}{{ a }}{% endmacro %}{{ pm() }}",
	"{{ [1, %F]|length }}",
	"{{ {'k': %F}|length }}",
	"{% set q = %F %}",
	"{% include 'benign' with {'a': %F} %}",
	"{{ yes ? %F : 1 }}",
	"{{ (%F) ~ 'a' }}",
	"{{ not (%F) }}",
	"{% if (%F) is defined %}d{% endif %}",
	"{{ xs[%F] }}",
	"{{ v|okf(1, %F) }}",
	"{% do %F %}",
	// inside constructs that tolerate a missing or failing operand (default on an access path, the defined test, ignore
	// missing): the violation must still be reported
	"{{ xs[%F]|default('d') }}",
	"{{ (%F).x|default('d') }}",
	"{{ (%F)[0]|default('d') }}",
	"{% if (%F).x|default(false) %}y{% else %}n{% endif %}",
	"{{ zz.a[%F]|default('d') }}",
	"{{ (%F)|default('d') }}",
	"{{ (%F).x is defined ? 1 : 0 }}",
	"{{ xs[%F] is defined ? 1 : 0 }}",
	"{% include 'nope_' ~ (%F) ignore missing %}",
	"{% for i in xs[%F]|default([]) %}{{ i }}{% endfor %}",
	// tags that apply a filter by its name themselves (the application may have replaced that filter by its own)
	"X_TAGFILTER:spaceless:{% spaceless %}<a> {{ v }} </a> <b>x</b>{% endspaceless %}",
	"X_TAGFILTER:spaceless:{% apply spaceless %}<a> {{ v }} </a>{% endapply %}",
	"X_TAGFILTER:spaceless:{{ '<a> </a>'|spaceless }}",
	// method-form calls on a value that is no macro module fall back to the function table
	"{{ v.X_FN() }}",
	"{{ v.X_FN(1, v) }}",
	"{{ xs.X_FN() }}",
	// a macro named like the forbidden function is in scope: whichever of the two the call resolves to, the forbidden function
	// must not run (SPYONLY: no error is demanded, the macro may legitimately answer the call)
	"SPYONLY:{% macro X_FN() %}mac{% endmacro %}{{ v.X_FN() }}",
	"SPYONLY:{% macro X_FN(a) %}mac{{ a }}{% endmacro %}{{ X_FN(v) }}{{ _self.X_FN(v) }}",
	"SPYONLY:{% macro X_FN() %}mac{% endmacro %}{{ xs.X_FN() }}{% for i in xs %}{{ i.X_FN() }}{% endfor %}",
}

const c06Routes = 20

func c06Expand(pos string, kind string, name string) (string, bool) {
	app := "v|" + name
	if kind == "function" {
		app = name + "(v)"
	}
	s := pos
	switch {
	case strings.Contains(s, "X_LAST"):
		if kind == "function" {
			return "", false
		}
		s = strings.ReplaceAll(s, "X_LAST", name)
	case strings.Contains(s, "X_MID"):
		if kind == "function" {
			return "", false
		}
		s = strings.ReplaceAll(s, "X_MID", name)
	case strings.Contains(s, "X_SEQ"):
		if kind == "function" {
			s = strings.ReplaceAll(s, "X_SEQ", name+"(xs)")
		} else {
			s = strings.ReplaceAll(s, "X_SEQ", "xs|"+name)
		}
	case strings.Contains(s, "X_FN"):
		if kind != "function" {
			return "", false
		}
		s = strings.ReplaceAll(s, "X_FN", name)
	case strings.Contains(s, "X_APPLY"):
		if kind == "function" {
			return "", false
		}
		s = strings.ReplaceAll(s, "X_APPLY", name)
	}
	return strings.ReplaceAll(s, "%F", app), true
}

// build returns the template set for a route; `frag` is the fragment containing the construct.
func c06Build(route int, frag string) map[string]string {
	t := map[string]string{
		"benign": "(benign {{ a }})",
		"main":   "OUT[{% include 'sb' sandboxed %}]",
	}
	switch route {
	case 0:
		t["sb"] = "S:" + frag
	case 1:
		t["sb"] = "S:{% include 'in1' %}"
		t["in1"] = "I:" + frag
	case 2:
		t["sb"] = "S:{% include 'in1' only %}"
		t["in1"] = "{% set v = 'vv' %}{% set xs = [1] %}{% set yes = true %}I:" + frag
	case 3:
		t["sb"] = "S:{% include 'in1' with {'extra': 1} %}"
		t["in1"] = "I:" + frag
	case 4:
		t["sb"] = "{% extends 'lay' %}{% block b %}ovr{% endblock %}"
		t["lay"] = "L:" + frag + "{% block b %}dflt{% endblock %}"
	case 5:
		t["sb"] = "{% extends 'lay' %}{% block b %}O:" + frag + "{% endblock %}"
		t["lay"] = "L:{% block b %}dflt{% endblock %}"
	case 6:
		t["sb"] = "{% extends 'lay' %}{% block b %}O:{{ parent() }}{% endblock %}"
		t["lay"] = "L:{% block b %}P:" + frag + "{% endblock %}"
	case 7:
		t["sb"] = "S:{% import 'mlib' as ml %}{{ ml.mac() }}"
		t["mlib"] = "{% macro mac() %}M:" + frag + "{% endmacro %}"
	case 8:
		t["sb"] = "S:{% from 'mlib' import mac %}{{ mac() }}"
		t["mlib"] = "{% macro mac() %}M:" + frag + "{% endmacro %}"
	case 10:
		// a macro of the includer, called from the sandboxed template (which sees it without `only`)
		t["main"] = "{% macro imac() %}IM:" + frag + "{% endmacro %}OUT[{% include 'sb' sandboxed %}]"
		t["sb"] = "S:{{ imac() }}"
	case 11:
		t["main"] = "{% macro imac() %}IM:" + frag + "{% endmacro %}OUT[{% include 'sb' sandboxed %}]"
		t["sb"] = "{% extends 'lay' %}{% block b %}O:{{ imac() }}{% endblock %}"
		t["lay"] = "L:{% block b %}dflt{% endblock %}"
	case 12:
		t["main"] = "{% from 'mlib' import mac %}OUT[{% include 'sb' sandboxed %}]"
		t["sb"] = "{% extends 'lay' %}{% block b %}ovr{% endblock %}"
		t["lay"] = "L:{{ mac() }}{% block b %}dflt{% endblock %}"
		t["mlib"] = "{% macro mac() %}M:" + frag + "{% endmacro %}"
	case 13:
		// code at the top level of a library (outside its macros) runs when the sandboxed template imports the library
		t["sb"] = "S:{% from 'mlib' import mac %}{{ mac() }}"
		t["mlib"] = "{% set v = 'vv' %}{% set xs = [1] %}{% set yes = true %}T:" + frag + "{% macro mac() %}M{% endmacro %}"
	case 14:
		t["sb"] = "S:{% import 'mlib' as ml %}{{ ml.mac() }}"
		t["mlib"] = "{% set v = 'vv' %}{% set xs = [1] %}{% set yes = true %}T:" + frag + "{% macro mac() %}M{% endmacro %}"
	case 15:
		t["sb"] = "S:{% include 'in1' %}"
		t["in1"] = "I:{% from 'mlib' import mac %}{{ mac() }}"
		t["mlib"] = "{% macro mac() %}M{% endmacro %}{% set v = 'vv' %}{% set xs = [1] %}{% set yes = true %}T:" + frag
	case 16, 17:
		// the sandboxed include stands inside a block of a template that extends a layout, and what it includes asks for
		// parent(): whatever that resolves to (the engine may refuse it outside a block), the forbidden name written in the
		// layout's block must not run on behalf of the sandboxed template
		t["lay6"] = "LAY<{% block c %}[" + frag + "]{% endblock %}>"
		t["main"] = "{% extends 'lay6' %}{% block c %}OUT[{% include 'sb' sandboxed %}]{% endblock %}"
		t["sb"] = "S:{{ parent() }}"
		if route == 17 {
			t["sb"] = "S:{% macro up() %}{{ parent() }}{% endmacro %}{{ up() }}{{ _self.up() }}"
		}
	case 18, 19:
		// the includer imports a macro library outside the sandbox and the sandboxed template calls one of its macros; the
		// library imports a helper at its top level, and the helper's top-level code (outside any macro) holds the construct.
		// Outside the sandbox that code may run; whatever of it runs on behalf of the sandboxed template is held to the policy
		// (decided by a call count against the same main template without its sandboxed include, see Run)
		t["hlp"] = "{% set v = 'vv' %}{% set xs = [1] %}{% set yes = true %}T:" + frag + "{% macro hm() %}H{% endmacro %}"
		if route == 18 {
			t["main"] = "{% import 'mlib' as ml %}OUT[{% include 'sb' sandboxed %}]"
			t["sb"] = "S:{{ ml.mac() }}"
			t["mlib"] = "{% import 'hlp' as h %}{% macro mac() %}M{{ h.hm() }}{% endmacro %}"
		} else {
			t["main"] = "{% from 'mlib' import mac %}OUT[{% include 'sb' with {'tools': 1} %}|{% include 'sb' sandboxed %}]"
			t["sb"] = "S:{{ mac() }}"
			t["mlib"] = "{% from 'hlp' import hm %}{% macro mac() %}M{{ hm() }}{% endmacro %}"
		}
	default:
		t["sb"] = "S:{% include 'in1' %}"
		t["in1"] = "I:{% include 'in2' only %}"
		t["in2"] = "{% set v = 'vv' %}{% set xs = [1] %}{% set yes = true %}J:{% include 'in3' %}"
		t["in3"] = "K:" + frag
	}
	return t
}

// c06Prefix puts up to two more hops between the sandboxed include and the route's entry template 'sb': however the
// sandboxed template reaches the construct, the policy applies.
func c06Prefix(t map[string]string, hops []int) map[string]string {
	next := "sb"
	for i := len(hops) - 1; i >= 0; i-- {
		name := fmt.Sprintf("p%d", i)
		switch hops[i] {
		case 0:
			t[name] = fmt.Sprintf("H%d:{%% include '%s' %%}", i, next)
		case 1:
			t[name] = fmt.Sprintf("H%d:{%% include '%s' with {'v': v, 'xs': xs, 'yes': yes, 'no': no} only %%}", i, next)
		case 2:
			t[name] = fmt.Sprintf("H%d:{%% include '%s' with {'extra%d': 1} %%}", i, next, i)
		case 3:
			t[name] = fmt.Sprintf("H%d:{%% import 'pm%d' as pmod %%}{{ pmod.go(v, xs, yes) }}", i, i)
			t[fmt.Sprintf("pm%d", i)] = fmt.Sprintf("{%% macro go(v, xs, yes) %%}G:{%% include '%s' %%}{%% endmacro %%}", next)
		case 4:
			t[name] = fmt.Sprintf("H%d:{%% from 'pm%d' import go as hop %%}{{ hop(v, xs, yes) }}", i, i)
			t[fmt.Sprintf("pm%d", i)] = fmt.Sprintf("{%% macro go(v, xs, yes) %%}G:{%% include '%s' %%}{%% endmacro %%}", next)
		default:
			t[name] = fmt.Sprintf("{%% extends 'pl%d' %%}{%% block hop%d %%}B:{%% include '%s' %%}{%% endblock %%}", i, i, next)
			t[fmt.Sprintf("pl%d", i)] = fmt.Sprintf("PL%d[{%% block hop%d %%}{%% endblock %%}]", i, i)
		}
		next = name
	}
	t["main"] = "OUT[{% include '" + next + "' sandboxed %}]"
	return t
}

func (p *c06) engine(spy *c06Spy, pol twig.SecurityPolicy, forbidName string) func(e *twig.Engine) {
	return func(e *twig.Engine) {
		mkF := func(name string) twig.FilterFunc {
			return func(v interface{}, args ...interface{}) (interface{}, error) {
				spy.log = append(spy.log, "filter:"+name)
				return v, nil
			}
		}
		mkG := func(name string) twig.FunctionFunc {
			return func(args ...interface{}) (interface{}, error) {
				spy.log = append(spy.log, "function:"+name)
				if len(args) > 0 {
					return args[0], nil
				}
				return "", nil
			}
		}
		for _, n := range []string{"f1", "f2", "okf", "upper", "merge", "e"} {
			e.AddFilter(n, mkF(n))
		}
		switch forbidName {
		case "spaceless", "raw", "escape":
			e.AddFilter(forbidName, mkF(forbidName)) // the application's own spaceless, raw, escape
		case "parent", "block":
			e.AddFunction(forbidName, mkG(forbidName))
		}
		for _, n := range []string{"g1", "g2", "okg", "range", "max", "cycle"} {
			e.AddFunction(n, mkG(n))
		}
		if p.bothForms {
			e.AddFilter(forbidName, mkF("twin-of-"+forbidName))
			e.AddFunction(forbidName, mkG("twin-of-"+forbidName))
			if p.bothKind == "filter" {
				e.AddFilter(forbidName, mkF(forbidName))
			} else {
				e.AddFunction(forbidName, mkG(forbidName))
			}
		}
		e.EnableSandbox(pol)
		if p.afterDisable {
			// the engine-wide sandbox mode is switched off again; the policy stays, and an include that asks for the sandbox
			// by name is still rendered under it
			e.DisableSandbox()
		}
	}
}

func (p *c06) Run(rec *core.Recorder, seed uint64, idx int, tier string) {
	nGrid := len(c06Positions) * c06Routes * 2 * 4 * 2
	var pos, route, kindI, polI int
	variant := 0
	if idx < nGrid {
		k := idx
		variant = k % 2
		k /= 2
		polI = k % 4
		k /= 4
		kindI = k % 2
		k /= 2
		route = k % c06Routes
		pos = k / c06Routes
	} else {
		r := core.NewRand("C06", seed, idx)
		pos, route, kindI, polI, variant = r.Intn(len(c06Positions)), r.Intn(c06Routes), r.Intn(2), r.Intn(6), 2+r.Intn(3)
	}
	p.afterDisable = idx >= nGrid && core.Hash64(fmt.Sprint(seed, idx), "disable-after-enable")%4 == 0
	if p.afterDisable {
		rec.Count("cases-after-DisableSandbox", 1)
	}
	kind := []string{"filter", "function"}[kindI]
	p.bothForms, p.bothKind = idx >= nGrid && polI < 2 && core.Hash64(fmt.Sprint(seed, idx), "both-forms")%3 == 0, kind
	if p.bothForms {
		rec.Count("cases-with-the-name-in-both-namespaces", 1)
	}
	// forbidden name per policy
	var name string
	switch polI {
	case 0:
		name = map[string]string{"filter": "f1", "function": "g1"}[kind]
	case 1:
		name = map[string]string{"filter": "f2", "function": "g2"}[kind]
	case 2:
		name = map[string]string{"filter": "upper", "function": "cycle"}[kind]
	case 3:
		name = map[string]string{"filter": "merge", "function": "range"}[kind]
	case 4:
		// names the engine itself gives a meaning to, re-registered by the application: the policy decides about them too
		name = map[string]string{"filter": "raw", "function": "parent"}[kind]
	default:
		name = map[string]string{"filter": "escape", "function": "block"}[kind]
	}
	posSrc := c06Positions[pos]
	if strings.HasPrefix(posSrc, "X_TAGFILTER:") {
		// the forbidden name is the filter the tag applies
		if kind != "filter" {
			rec.Count("skipped-not-applicable", 1)
			return
		}
		parts := strings.SplitN(posSrc, ":", 3)
		name, posSrc = parts[1], parts[2]
	}
	spyOnly := strings.HasPrefix(posSrc, "SPYONLY:")
	posSrc = strings.TrimPrefix(posSrc, "SPYONLY:")
	frag, ok := c06Expand(posSrc, kind, name)
	if !ok {
		rec.Count("skipped-not-applicable", 1)
		return
	}
	switch variant {
	case 1:
		frag = "pre{{ v|okf }}" + frag // an allowed construct before the forbidden one
	case 2:
		frag = "{% for i in xs %}" + frag + "{% endfor %}"
	case 3:
		frag = "{% if yes %}{% block inner %}" + frag + "{% endblock %}{% endif %}"
	case 4:
		frag = frag + frag
	}
	srcs := c06Build(route, frag)
	if idx >= nGrid {
		r2 := core.NewRand("C06hops", seed, idx)
		hops := make([]int, r2.Intn(3))
		for i := range hops {
			hops[i] = r2.Intn(6)
		}
		if len(hops) > 0 {
			own := srcs["main"]
			srcs = c06Prefix(srcs, hops)
			if route >= 18 {
				// these routes need the includer's own import in front of the sandboxed include
				srcs["main"] = own[:strings.Index(own, "OUT[")] + srcs["main"]
			}
			rec.Count(fmt.Sprintf("prefix-hops:%d", len(hops)), 1)
		}
	}
	allowedF := map[string]bool{"okf": true, "default": true, "length": true, "f1": true, "f2": true, "upper": true, "merge": true, "e": true, "spaceless": true, "raw": true, "escape": true}
	allowedG := map[string]bool{"okg": true, "g1": true, "g2": true, "range": true, "max": true, "cycle": true, "pm": true, "mac": true, "parent": true, "block": true, "up": true, "go": true, "hop": true, "imac": true, "hm": true}
	mkPolicy := func(forbid bool) twig.SecurityPolicy {
		f, g := map[string]bool{}, map[string]bool{}
		for k, v := range allowedF {
			f[k] = v
		}
		for k, v := range allowedG {
			g[k] = v
		}
		if p.bothForms {
			// the forbidden name also exists in the other namespace, where the policy allows it: a filter named like an
			// allowed function is still a forbidden filter
			if kind == "filter" {
				g[name] = true
			} else {
				f[name] = true
			}
		}
		if forbid {
			// the name is taken off the list, or (one case in three) stays on it with the value false: both say "not allowed"
			revoke := core.Hash64(fmt.Sprint(seed, idx), "revoked-by-false")%3 == 0
			if kind == "filter" {
				delete(f, name)
				if revoke {
					f[name] = false
				}
			} else {
				delete(g, name)
				if revoke {
					g[name] = false
				}
			}
		}
		if polI%2 == 0 {
			dp := twig.NewDefaultSecurityPolicy()
			dp.AllowedFilters, dp.AllowedFunctions = f, g
			return dp
		}
		return &c06Policy{filters: f, functions: g}
	}
	ctx := map[string]interface{}{"v": "vv", "xs": []interface{}{1, 2}, "yes": true, "no": false}
	canon := canonSrcs(srcs) + fmt.Sprint(polI, kind)
	rec.Eval(fmt.Sprintf("route%d", route), canon, true)
	cs := map[string]any{"templates": srcs, "forbidden": kind + " " + name, "policy": []string{"default-edited", "custom", "default-edited/builtin-name", "custom/builtin-fallback-name", "default-edited/engine-special-name", "custom/engine-special-name"}[polI]}
	forbiddenTag := kind + ":" + name

	// (1) forbidden: no spy call, SecurityViolation error
	spy := &c06Spy{}
	res := renderFresh(srcs, "main", ctx, p.engine(spy, mkPolicy(true), name))
	if res.Panicked {
		rec.Violate("panic", "panic@"+res.Site, "engine panicked: "+res.PanicVal, cs, res.Stack)
		return
	}
	if route >= 18 {
		// differential spy: the forbidden name runs as often as in the same main template without its sandboxed include
		base := map[string]string{}
		for k, v := range srcs {
			base[k] = v
		}
		base["main"] = regexp.MustCompile(`\{% include '[a-z0-9]+' sandboxed %\}`).ReplaceAllString(srcs["main"], "")
		spy0 := &c06Spy{}
		res0 := renderFresh(base, "main", ctx, p.engine(spy0, mkPolicy(true), name))
		n, n0 := 0, 0
		for _, l := range spy.log {
			if l == forbiddenTag {
				n++
			}
		}
		for _, l := range spy0.log {
			if l == forbiddenTag {
				n0++
			}
		}
		rec.Count("differential-spy-cases", 1)
		if n0 > 0 {
			rec.Count("differential-spy-cases-with-calls-outside-the-sandbox", 1)
		}
		if res0.Panicked {
			rec.Violate("panic", "panic@"+res0.Site, "engine panicked: "+res0.PanicVal, cs, res0.Stack)
			return
		}
		if base["main"] == srcs["main"] || n != n0 {
			rec.Violate("spy", fmt.Sprintf("sandbox-bypass:pos%d:route%d:%s", pos, route, kind),
				fmt.Sprintf("forbidden %s %q was invoked %d times with the sandboxed include in place and %d times without it: the difference ran on behalf of the sandboxed template (position %q, route %d); render returned out=%q err=%v", kind, name, n, n0, c06Positions[pos], route, core.Trunc(res.Out, 120), res.Err), cs, "")
		}
		return
	}
	for _, l := range spy.log {
		if l == forbiddenTag {
			rec.Violate("spy", fmt.Sprintf("sandbox-bypass:pos%d:route%d:%s", pos, route, kind),
				fmt.Sprintf("forbidden %s %q was invoked inside a sandboxed include (position %q, route %d); render returned out=%q err=%v", kind, name, c06Positions[pos], route, core.Trunc(res.Out, 120), res.Err), cs, "")
			return
		}
	}
	var sv *twig.SecurityViolation
	if spyOnly || (route >= 10 && route <= 12) || route == 16 || route == 17 || p.afterDisable {
		// (after DisableSandbox: what error an include that asks for the sandbox gets is not stated; the forbidden callable
		// must not run)
		// (routes 10-12: whether the sandboxed template can resolve a macro of its includer at all is the engine's business;
		// what is demanded is that the forbidden callable does not run)
		rec.Count("spy-only-cases", 1)
		return
	}
	if res.Err == nil || !errors.As(res.Err, &sv) {
		rec.Violate("security-error", fmt.Sprintf("no-violation-error:pos%d:route%d:%s", pos, route, kind),
			fmt.Sprintf("forbidden %s %q on a straight-line path in a sandboxed include: render returned out=%q err=%v instead of a *SecurityViolation", kind, name, core.Trunc(res.Out, 120), res.Err), cs, "")
		return
	}
	rec.Count("expected-violation-errors", 1)

	// (2) allowed twin: the same templates with the name allowed render like the unsandboxed version
	spy2 := &c06Spy{}
	resA := renderFresh(srcs, "main", ctx, p.engine(spy2, mkPolicy(false), name))
	plain := map[string]string{}
	for k, v := range srcs {
		plain[k] = strings.ReplaceAll(v, " sandboxed %}", " %}")
	}
	spy3 := &c06Spy{}
	resP := renderFresh(plain, "main", ctx, p.engine(spy3, mkPolicy(false), name))
	rec.Count("allowed-twin-renders", 1)
	if resA.Panicked || resP.Panicked {
		rec.Violate("panic", "panic@"+resA.Site+resP.Site, "engine panicked: "+resA.PanicVal+resP.PanicVal, cs, resA.Stack+resP.Stack)
		return
	}
	if (resA.Err != nil) != (resP.Err != nil) || resA.Out != resP.Out {
		rec.Violate("allowed-keeps-working", fmt.Sprintf("allowed-broken:pos%d:route%d:%s", pos, route, kind),
			fmt.Sprintf("with %s %q allowed, the sandboxed render gives out=%q err=%v but the unsandboxed one out=%q err=%v", kind, name, core.Trunc(resA.Out, 150), resA.Err, core.Trunc(resP.Out, 150), resP.Err), cs, "")
		return
	}

	// (2b) the policy is what it says at the time of the render: the same engine first renders with the name allowed, then the
	// policy object is edited in place (no EnableSandbox call) and the name is forbidden from then on
	if !spyOnly && idx%3 == 0 {
		pol := mkPolicy(false)
		spy5 := &c06Spy{}
		var first, second Result
		second.Panicked, second.Site, second.PanicVal, second.Stack = core.Guard(func() {
			e := freshEngine(srcs)
			p.engine(spy5, pol, name)(e)
			first.Out, first.Err = e.Render("main", ctx)
			// revoke in place
			switch pp := pol.(type) {
			case *twig.DefaultSecurityPolicy:
				if kind == "filter" {
					delete(pp.AllowedFilters, name)
				} else {
					delete(pp.AllowedFunctions, name)
				}
			case *c06Policy:
				if kind == "filter" {
					delete(pp.filters, name)
				} else {
					delete(pp.functions, name)
				}
			}
			spy5.log = nil
			second.Out, second.Err = e.Render("main", ctx)
		})
		rec.Count("revoked-in-place-checks", 1)
		if second.Panicked {
			rec.Violate("panic", "panic@"+second.Site, "engine panicked: "+second.PanicVal, cs, second.Stack)
			return
		}
		for _, l := range spy5.log {
			if l == forbiddenTag {
				rec.Violate("spy", fmt.Sprintf("sandbox-bypass-after-revoke:pos%d:%s", pos, kind),
					fmt.Sprintf("%s %q was allowed for a first render and then removed from the policy object; the next sandboxed render on the same engine still invoked it (position %q, route %d): out=%q err=%v", kind, name, c06Positions[pos], route, core.Trunc(second.Out, 120), second.Err), cs, "")
				return
			}
		}
	}

	// (3) the including template keeps its permissions outside the sandbox
	if idx%4 == 0 {
		outer := map[string]string{"benign": "(b)", "sb": "inner {{ v|okf }}"}
		app := "v|" + name
		if kind == "function" {
			app = name + "(v)"
		}
		outer["main"] = "A{{ " + app + " }}[{% include 'sb' sandboxed %}]B{{ " + app + " }}"
		spy4 := &c06Spy{}
		resO := renderFresh(outer, "main", ctx, p.engine(spy4, mkPolicy(true), name))
		rec.Count("outer-permission-checks", 1)
		n := 0
		for _, l := range spy4.log {
			if l == forbiddenTag {
				n++
			}
		}
		if resO.Err != nil || n != 2 {
			rec.Violate("outer-permissions", "outer-permissions-lost:"+kind,
				fmt.Sprintf("the including template used %s %q outside the sandboxed include: err=%v, %d of 2 calls happened, out=%q", kind, name, resO.Err, n, core.Trunc(resO.Out, 150)), map[string]any{"templates": outer}, "")
			return
		}
	}
	if rec.WantSample(fmt.Sprintf("route%d", route)) {
		cs["error"] = res.Err.Error()
		rec.Sample(fmt.Sprintf("route%d", route), cs)
	}
}
