package props

import (
	"testing"

	"verifharness/internal/core"
	"verifharness/internal/mt"
)

func TestGenTSetAgreesWithReference(t *testing.T) {
	bad := 0
	for seed := 0; seed < 300; seed++ {
		ts := GenTSet(core.NewRand("t", uint64(seed), 0), "m")
		srcs := (&mt.Printer{}).SourceSet(ts.Set)
		for _, e := range ts.Entries {
			in := mt.NewInterp(ts.Set)
			want, werr := in.Render(e, ts.Ctx)
			res := renderFresh(srcs, e, ts.GoCtx(), nil)
			if werr != nil {
				t.Logf("seed %d %s: reference error %v", seed, e, werr)
				bad++
				continue
			}
			if res.Err != nil || res.Out != want {
				bad++
				if bad < 6 {
					t.Errorf("seed %d entry %s:\n got %q err=%v\nwant %q\nsrc %q", seed, e, res.Out, res.Err, want, srcs[e])
				}
			}
		}
	}
	if bad > 0 {
		t.Errorf("%d disagreements", bad)
	}
}
