package props

import (
	"fmt"
	"strings"

	"verifharness/internal/core"
	"verifharness/internal/mt"
)

// C10 — inheritance is block substitution along the extends chain.
type c10 struct{ base }

func init() {
	Register(&c10{base{
		id: "C10", level: "exploration",
		technique: "reference-model monitor (block-substitution semantics over the extends chain) over enumerated and random assignments of block definitions to chain levels",
		rule: "case = extends chain t0<-t1<-...<-tn, for every (level, block) one of {absent, empty, text, text+parent(), parent() twice, variable print, loop}, a base layout (plain / nested blocks / block in for / block in if) and a parent-name form (static, variable, conditional); " +
			"expected bytes from the reference interpreter. Non-trivial: chain length >= 3 (at least two overriding levels) or a parent() call. Distinct = distinct (templates, context).",
		assumptions: []string{
			"children contain nothing but text outside blocks; a child may define block b inside its override of block a; no block() function; leaf rendered once on a fresh engine",
			"the reference interpreter (internal/mt) is trusted to transcribe the statement",
		},
		quick: 60000, thorough: 1200000, minQuick: 5000, minThorough: 50000,
	}})
}

const (
	bkAbsent = iota
	bkEmpty
	bkText
	bkTextParent
	bkParent
	bkParentTwice
	bkVar
	bkLoop
	bkParentFiltered
	bkParentConcat
	bkParentSet
	// the override of block a carries this level's definition of block b inside it (and the level has no top-level b)
	bkNestedDef
	bkNestedDefParent
	// parent() more than once in one rendering of the override, with a variable the lower definitions read changed in between
	bkParentVarChange
	bkParentInLoop
)

func c10Body(kind, level int, name string, hasLower bool, inRow bool) ([]mt.Stmt, bool) {
	tag := fmt.Sprintf("L%d.%s", level, name)
	par := mt.Stmt(mt.P(mt.Parent{}))
	if !hasLower && (kind == bkTextParent || kind == bkParent || kind == bkParentTwice || (kind >= bkParentFiltered && kind < bkNestedDef)) {
		kind = bkText
	}
	switch kind {
	case bkEmpty:
		return []mt.Stmt{}, true
	case bkText:
		return []mt.Stmt{mt.T(tag)}, true
	case bkTextParent:
		return []mt.Stmt{mt.T(tag + "<"), par, mt.T(">")}, true
	case bkParent:
		return []mt.Stmt{par}, true
	case bkParentTwice:
		return []mt.Stmt{par, mt.T("+" + tag + "+"), par}, true
	case bkVar:
		// (tv<level> is assigned at the top level of the template that defines this block, outside every block)
		b := []mt.Stmt{mt.T(tag + "="), mt.P(mt.V("v")), mt.T(";"), mt.P(mt.V(fmt.Sprintf("tv%d", level))), mt.P(mt.MCall{Name: fmt.Sprintf("tm%d", level), Args: []mt.Expr{mt.I(int64(level))}})}
		if inRow {
			b = append(b, mt.P(mt.V("i")))
		}
		return b, true
	case bkParentFiltered:
		// the value of parent() in other positions than a bare print tag
		return []mt.Stmt{mt.T(tag + "⟨"), mt.P(mt.Filt{E: mt.Parent{}, Name: "upper"}), mt.T("⟩")}, true
	case bkParentConcat:
		return []mt.Stmt{mt.T(tag + "("), mt.P(mt.Op("~", mt.Op("~", mt.S("<"), mt.Parent{}), mt.S(">"))), mt.T(")")}, true
	case bkParentSet:
		return []mt.Stmt{mt.Set{Name: "pp", E: mt.Parent{}}, mt.T(tag + "["), mt.P(mt.V("pp")), mt.P(mt.Filt{E: mt.V("pp"), Name: "length"}), mt.T("]")}, true
	case bkLoop:
		return []mt.Stmt{mt.For{Val: "x", Seq: mt.V("xs"), Body: []mt.Stmt{mt.P(mt.V("x")), mt.T(tag)}}}, true
	case bkParentVarChange:
		if !hasLower {
			return []mt.Stmt{mt.T(tag)}, true
		}
		return []mt.Stmt{mt.T(tag + "("), par, mt.Set{Name: "v", E: mt.S(fmt.Sprintf("W%d", level))}, mt.T("~"), par, mt.T(")")}, true
	case bkParentInLoop:
		if !hasLower {
			return []mt.Stmt{mt.T(tag)}, true
		}
		return []mt.Stmt{mt.T(tag + "("), mt.For{Val: "x", Seq: mt.V("xs"), Body: []mt.Stmt{mt.Set{Name: "v", E: mt.Op("~", mt.S("X"), mt.V("x"))}, par, mt.T(";")}}, mt.T(")")}, true
	case bkNestedDef, bkNestedDefParent:
		inner := []mt.Stmt{mt.T(fmt.Sprintf("N%d.b", level))}
		out := []mt.Stmt{mt.T(tag + "⟦")}
		if kind == bkNestedDefParent {
			inner = append(inner, mt.T("+"), par)
		}
		out = append(out, mt.Block{Name: "b", Body: inner}, mt.T("⟧"))
		if kind == bkNestedDefParent && hasLower {
			out = append(out, par)
		}
		return out, true
	}
	return nil, false
}

// layouts: returns base body and the block names it declares (with "row" marking a block inside a loop).
func c10Layout(kind int, body func(name string) []mt.Stmt) ([]mt.Stmt, []string) {
	blk := func(n string) mt.Stmt { return mt.Block{Name: n, Body: body(n)} }
	switch kind {
	case 0:
		return []mt.Stmt{mt.T("HEAD|"), blk("a"), mt.T("|MID|"), blk("b"), mt.T("|FOOT")}, []string{"a", "b"}
	case 1:
		inner := mt.Block{Name: "b", Body: body("b")}
		outer := mt.Block{Name: "a", Body: append(append([]mt.Stmt{mt.T("O[")}, body("a")...), inner, mt.T("]"))}
		return []mt.Stmt{mt.T("<"), outer, mt.T(">")}, []string{"a", "b"}
	case 2:
		return []mt.Stmt{mt.T("T:"), mt.For{Val: "i", Seq: mt.V("rows"), Body: []mt.Stmt{mt.T("("), blk("a"), mt.T(")")}}, mt.T("|"), blk("b")}, []string{"a", "b"}
	default:
		return []mt.Stmt{mt.If{Conds: []mt.Expr{mt.V("flag")}, Bodies: [][]mt.Stmt{{mt.T("yes:"), blk("a")}}, HasElse: true, Else: []mt.Stmt{mt.T("no:"), blk("b")}}, mt.T("|"),
			mt.If{Conds: []mt.Expr{mt.V("flag")}, Bodies: [][]mt.Stmt{{blk("b")}}, HasElse: true, Else: []mt.Stmt{blk("a")}}}, []string{"a", "b"}
	}
}

func (p *c10) build(levels int, kinds [][]int, layout int, nameForm int, flag bool) (*mt.TmplSet, string, map[string]mt.Val, bool) {
	set := mt.NewSet()
	usesParent := false
	// in one chain of three every template defines a macro mk of its own; only the layout at the bottom calls it (in its text
	// and in its block bodies, which overrides reach through parent()): what the layout prints is the layout's business
	sameNamed := (levels*7+layout*5+len(kinds)+nameForm)%3 == 0
	mk := func(lv int) mt.Stmt {
		return mt.Macro{Name: "mk", Params: []string{"q"}, Body: []mt.Stmt{mt.T(fmt.Sprintf("<MK%d:", lv)), mt.P(mt.V("q")), mt.T(">")}}
	}
	base, names := c10Layout(layout, func(n string) []mt.Stmt {
		b := []mt.Stmt{mt.T("B0." + n + "="), mt.P(mt.V("v"))}
		if sameNamed {
			b = append(b, mt.P(mt.MCall{Name: "mk", Args: []mt.Expr{mt.S(n)}}))
		}
		return b
	})
	if sameNamed {
		base = append(append([]mt.Stmt{mk(0), mt.P(mt.MCall{Name: "mk", Args: []mt.Expr{mt.S("head")}})}, base...), mt.P(mt.MCall{Prefix: "_self", Name: "mk", Args: []mt.Expr{mt.S("foot")}}))
	}
	set.Add("t0", base)
	defined := map[string]bool{"a": true, "b": true}
	for lv := 1; lv < levels; lv++ {
		var ext mt.Expr = mt.S(fmt.Sprintf("t%d", lv-1))
		if lv == levels-1 {
			switch nameForm {
			case 1:
				ext = mt.V("pname")
			case 2:
				ext = mt.Cond{C: mt.V("t_yes"), A: mt.S(fmt.Sprintf("t%d", lv-1)), B: mt.S("nope")}
			}
		}
		// the top-level assignment stands alone, or inside a condition / a loop that holds nothing but assignments
		var tvSet mt.Stmt = mt.Set{Name: fmt.Sprintf("tv%d", lv), E: mt.S(fmt.Sprintf("TV%d", lv))}
		switch (lv*5 + layout + len(kinds)*3) % 4 {
		case 1:
			tvSet = mt.If{Conds: []mt.Expr{mt.V("t_yes")}, Bodies: [][]mt.Stmt{{mt.T(" "), tvSet}}}
		case 2:
			tvSet = mt.If{Conds: []mt.Expr{mt.V("no_such_variable")}, Bodies: [][]mt.Stmt{{mt.Set{Name: fmt.Sprintf("tv%d", lv), E: mt.S("WRONG")}}}, HasElse: true, Else: []mt.Stmt{tvSet}}
		case 3:
			tvSet = mt.For{Val: "q", Seq: mt.V("xs"), Body: []mt.Stmt{mt.If{Conds: []mt.Expr{mt.V("t_yes")}, Bodies: [][]mt.Stmt{{tvSet}}}}}
		}
		body := []mt.Stmt{mt.Extends{E: ext}, mt.T("\nignored text\n"), tvSet,
			mt.Macro{Name: fmt.Sprintf("tm%d", lv), Params: []string{"q"}, Body: []mt.Stmt{mt.T("<TM"), mt.P(mt.V("q")), mt.T(">")}}}
		if sameNamed {
			body = append(body, mk(lv))
		}
		// more things outside the blocks of an extending template, none of which may produce output
		switch (lv*7 + layout*3 + len(kinds)) % 5 {
		case 1:
			body = append(body, mt.If{Conds: []mt.Expr{mt.V("t_yes")}, Bodies: [][]mt.Stmt{{mt.T("LEAK-IF")}}})
		case 2:
			body = append(body, mt.For{Val: "q", Seq: mt.V("xs"), Body: []mt.Stmt{mt.T("LEAK-FOR"), mt.P(mt.V("q"))}})
		case 3:
			body = append(body, mt.P(mt.S("LEAK-PRINT")), mt.P(mt.V("v")))
		case 4:
			body = append(body, mt.Set{Name: "outside", E: mt.S("LEAK-SET")}, mt.T("tail text"))
		}
		for bi, n := range names {
			k := kinds[lv-1][bi]
			if n == "a" && (k == bkNestedDef || k == bkNestedDefParent) && inRowLayout(layout) {
				k = bkText // a block defined inside a loop body of the base is left to the plain kinds
			}
			if n == "b" && ((kinds[lv-1][0] == bkNestedDef || kinds[lv-1][0] == bkNestedDefParent) && !inRowLayout(layout)) {
				continue // this level defines b inside its override of a
			}
			if n == "b" && (k == bkNestedDef || k == bkNestedDefParent) {
				k = bkTextParent
			}
			if k == bkTextParent || k == bkParent || k == bkParentTwice || k >= bkParentFiltered {
				usesParent = true
			}
			b, ok := c10Body(k, lv, n, defined[n], layout == 2 && n == "a")
			if ok {
				body = append(body, mt.Block{Name: n, Body: b}, mt.T(" "))
			}
		}
		if (lv*3+layout+levels+nameForm)%4 == 0 {
			// the extends tag need not be the first thing in a template: one of this level's top-level blocks is written
			// before it
			for bi := 1; bi < len(body); bi++ {
				if blk, ok := body[bi].(mt.Block); ok {
					rest := append(append([]mt.Stmt{}, body[:bi]...), body[bi+1:]...)
					body = append([]mt.Stmt{blk}, rest...)
					break
				}
			}
		}
		set.Add(fmt.Sprintf("t%d", lv), body)
	}
	ctx := map[string]mt.Val{"v": "VAL", "xs": []mt.Val{int64(1), int64(2)}, "rows": []mt.Val{int64(7), int64(8)}, "flag": flag,
		"pname": fmt.Sprintf("t%d", levels-2), "t_yes": true}
	return set, fmt.Sprintf("t%d", levels-1), ctx, usesParent
}

func inRowLayout(layout int) bool { return layout == 2 }

// c10Ladder renames the chain t0 <- t1 <- ... into a directory ladder in which every level is called layout.twig and
// extends '../layout.twig': the same written name at every level, resolved against the template that contains the tag.
func c10Ladder(srcs map[string]string, levels int) (map[string]string, string) {
	path := func(lv int) string {
		p := ""
		for i := 1; i <= lv; i++ {
			p += fmt.Sprintf("d%d/", i)
		}
		return p + "layout.twig"
	}
	out := map[string]string{}
	for lv := 0; lv < levels; lv++ {
		src := srcs[fmt.Sprintf("t%d", lv)]
		if lv > 0 {
			old := fmt.Sprintf("'t%d'", lv-1)
			if !strings.Contains(src, old) {
				return srcs, fmt.Sprintf("t%d", levels-1)
			}
			src = strings.Replace(src, old, "'../layout.twig'", 1)
		}
		out[path(lv)] = src
	}
	return out, path(levels - 1)
}

func (p *c10) check(rec *core.Recorder, class string, set *mt.TmplSet, main string, ctx map[string]mt.Val, nontrivial bool, ladder ...int) {
	in := mt.NewInterp(set)
	want, werr := in.Render(main, ctx)
	srcs := (&mt.Printer{}).SourceSet(set)
	if len(ladder) == 1 {
		srcs, main = c10Ladder(srcs, ladder[0])
		rec.Count("relative-name-ladders", 1)
	}
	srcs = maybeLarge(rec, srcs)
	canon := canonSrcs(srcs) + canonCtx(ctx)
	if werr != nil {
		rec.Count("skipped-referr", 1)
		rec.Notes["referr"] = werr.Error()
		return
	}
	rec.Eval(class, canon, nontrivial)
	gctx := ctxToGo(ctx)
	res := renderFresh(srcs, main, gctx, shadowedGlobals(rec, canon, gctx, nil))
	if res.Panicked {
		rec.Violate("panic", "panic@"+res.Site, "engine panicked: "+res.PanicVal, caseDump(srcs, main, ctx, map[string]any{"expected": want}), res.Stack)
		return
	}
	if res.Err != nil || res.Out != want {
		rec.Violate("reference-model", core.SigHash("c10", canon),
			fmt.Sprintf("engine gave %s (err=%v), block substitution requires %s; leaf %s", core.Q(core.Trunc(res.Out, 300)), res.Err, core.Q(core.Trunc(want, 300)), main),
			caseDump(srcs, main, ctx, map[string]any{"expected": want, "got": res.Out, "err": res.ErrStr()}), "")
		return
	}
	if rec.WantSample(class) {
		rec.Sample(class, map[string]any{"templates": srcs, "render": main, "output": want})
	}
}

func (p *c10) Run(rec *core.Recorder, seed uint64, idx int, tier string) {
	r := core.NewRand("C10", seed, idx)
	basic := []int{bkAbsent, bkEmpty, bkText, bkTextParent, bkParent}
	// exhaustive: chain lengths 2,3 (and 4 in thorough) × 2 blocks × 5 basic kinds × 4 layouts
	sizes := []int{25, 625}
	if tier == "thorough" {
		sizes = append(sizes, 15625)
	}
	for si, sz := range sizes {
		n := sz * 4
		if idx < n {
			levels := si + 2
			layout := idx % 4
			code := idx / 4
			kinds := make([][]int, levels-1)
			for lv := range kinds {
				kinds[lv] = make([]int, 2)
				for b := 0; b < 2; b++ {
					kinds[lv][b] = basic[code%5]
					code /= 5
				}
			}
			set, main, ctx, up := p.build(levels, kinds, layout, idx%3, idx%2 == 0)
			p.check(rec, fmt.Sprintf("exhaustive-len%d", levels), set, main, ctx, levels >= 3 || up)
			return
		}
		idx -= n
	}
	// single-template and trivial chains
	if idx < 8 {
		set := mt.NewSet()
		base, _ := c10Layout(idx%4, func(n string) []mt.Stmt { return []mt.Stmt{mt.T("B0." + n)} })
		set.Add("t0", base)
		ctx := map[string]mt.Val{"rows": []mt.Val{int64(7), int64(8)}, "flag": idx < 4}
		p.check(rec, "base-alone", set, "t0", ctx, false)
		return
	}
	// random
	levels := r.Range(2, 6)
	kinds := make([][]int, levels-1)
	for lv := range kinds {
		kinds[lv] = []int{r.Intn(15), []int{0, 1, 2, 3, 4, 5, 6, 7, 8, 9, 10, bkParentVarChange, bkParentInLoop}[r.Intn(13)]}
	}
	nameForm := r.Intn(3)
	set, main, ctx, up := p.build(levels, kinds, r.Intn(4), nameForm, r.Bool())
	if nameForm == 0 && r.P(1, 3) {
		p.check(rec, "random", set, main, ctx, levels >= 3 || up, levels)
		return
	}
	p.check(rec, "random", set, main, ctx, levels >= 3 || up)
}
