package props

import (
	"errors"
	"fmt"
	"strings"

	"github.com/semihalev/twig"

	"verifharness/internal/core"
	"verifharness/internal/mt"
)

// C11 — include scope and non-interference.
type c11 struct{ base }

func init() {
	Register(&c11{base{
		id: "C11", level: "exploration",
		technique: "reference-model monitor with explicit scope frames; after every include the includer prints probes of every variable, calls its own macro and renders its own later block; exhaustive option/placement grid",
		rule: "case = includer + included template(s) from the grid {with, only, ignore missing, sandboxed} x {static, concatenated, variable name} x {top level, in loop, in block, in macro} x {target exists, missing, nested include} x {variable-overlap pattern}; " +
			"expected bytes (or error) from the reference interpreter. Non-trivial: every grid point (each differs in at least one option). Distinct = distinct (templates, context).",
		assumptions: []string{
			"the included template does not read the includer's loop variable 'loop', macros or blocks; 'sandboxed' is combined only with an allow-everything policy here (C06 covers policies)",
			"inside a macro the includer's variables are the macro's parameters",
			"error texts are not compared, only error-vs-output",
		},
		quick: 1728 + 96 + 96 + 60 + 20 + 72 + 72 + 16000, thorough: 1728 + 96 + 96 + 60 + 20 + 72 + 72 + 400000, minQuick: 2500, minThorough: 15000,
	}})
}

type allowAll struct{}

func (allowAll) IsFunctionAllowed(string) bool { return true }
func (allowAll) IsFilterAllowed(string) bool   { return true }
func (allowAll) IsTagAllowed(string) bool      { return true }

type c11Case struct {
	inBranch                      int  // 1: what the included template sets and loops over sits in an else branch, 2: in an elseif branch, 3: in an if inside a for
	extInc                        bool // the included template extends a layout and does its work inside a block
	with, only, ignore, sandboxed bool
	nameForm, placement, target   int
	overlap                       int
}

func (p *c11) build(c c11Case) (*mt.TmplSet, map[string]mt.Val) {
	set := mt.NewSet()
	probe := func(tag string) []mt.Stmt {
		// nn is a variable of the includer whose value is null: defined wherever the includer's variables are visible
		return []mt.Stmt{mt.T("[" + tag + ":"), mt.P(mt.V("a")), mt.T("|"), mt.P(mt.V("z")), mt.T("|"), mt.P(mt.V("q")), mt.T("|"), mt.P(mt.V("w")), mt.T("|"), mt.P(mt.V("ii")),
			mt.T("|"), mt.P(mt.Cond{C: mt.IsDef{Name: "nn"}, A: mt.S("D"), B: mt.S("U")}), mt.P(mt.Cond{C: mt.IsDef{Name: "nn", Neg: true}, A: mt.S("u"), B: mt.S("d")}), mt.T("]")}
	}
	// innermost
	set.Add("inc2", append(probe("i2"), mt.Set{Name: "a", E: mt.S("a-from-inc2")}, mt.Set{Name: "w", E: mt.S("w-from-inc2")}))
	incBody := probe("i")
	switch c.overlap {
	case 0: // sets includer variables and a new one
		incBody = append(incBody, mt.Set{Name: "a", E: mt.S("a-from-inc")}, mt.Set{Name: "q", E: mt.S("q-from-inc")}, mt.T("("), mt.P(mt.V("a")), mt.P(mt.V("q")), mt.T(")"))
	case 1: // loop variables with the includer's names
		incBody = append(incBody, mt.For{Val: "z", Seq: mt.Arr{Items: []mt.Expr{mt.S("lz1"), mt.S("lz2")}}, Body: []mt.Stmt{mt.P(mt.V("z"))}},
			mt.For{Key: "ii", Val: "a", Seq: mt.Arr{Items: []mt.Expr{mt.S("la")}}, Body: []mt.Stmt{mt.P(mt.V("a"))}})
	default: // same-named macro and block
		incBody = append([]mt.Stmt{mt.Macro{Name: "mm", Body: []mt.Stmt{mt.T("MM-INC")}}}, incBody...)
		incBody = append(incBody, mt.P(mt.MCall{Name: "mm"}), mt.Block{Name: "later", Body: []mt.Stmt{mt.T("LATER-INC")}}, mt.Set{Name: "w", E: mt.S("w-from-inc")})
	}
	if c.inBranch > 0 && c.overlap < 2 {
		muts := incBody[len(probe("i")):]
		var wrapped mt.Stmt
		switch c.inBranch {
		case 1:
			wrapped = mt.If{Conds: []mt.Expr{mt.V("nosuchvar")}, Bodies: [][]mt.Stmt{{mt.T("then")}}, HasElse: true, Else: muts}
		case 2:
			wrapped = mt.If{Conds: []mt.Expr{mt.V("nosuchvar"), mt.V("a")}, Bodies: [][]mt.Stmt{{mt.T("then")}, muts}, HasElse: true, Else: []mt.Stmt{mt.T("else")}}
		default:
			wrapped = mt.For{Val: "once", Seq: mt.Arr{Items: []mt.Expr{mt.I(1)}}, Body: []mt.Stmt{mt.If{Conds: []mt.Expr{mt.V("a")}, Bodies: [][]mt.Stmt{muts}}}}
		}
		incBody = append(append([]mt.Stmt{}, probe("i")...), wrapped)
	}
	if c.target == 2 {
		incBody = append(incBody, mt.T("<"), mt.Include{E: mt.S("inc2"), HasWith: true, WithKeys: []string{"q"}, WithVals: []mt.Expr{mt.S("q-for-inc2")}, Only: c.only}, mt.T(">"))
		incBody = append(incBody, probe("i-after")...)
	}
	if c.extInc {
		// the included template is a child of a layout: scope rules are those of the include, in the layout and in the block
		set.Add("lay", append(append([]mt.Stmt{mt.T("L{")}, probe("lay")...), mt.Block{Name: "ib", Body: []mt.Stmt{mt.T("dflt")}}, mt.T("}L")))
		incBody = []mt.Stmt{mt.Extends{E: mt.S("lay")}, mt.Block{Name: "ib", Body: incBody}}
	}
	set.Add("inc", incBody)

	target := "inc"
	if c.target == 1 {
		target = "missing_tpl"
	}
	var name mt.Expr
	switch c.nameForm {
	case 0:
		name = mt.S(target)
	case 1:
		name = mt.Op("~", mt.S(target[:2]), mt.S(target[2:]))
	default:
		name = mt.V("tname")
	}
	inc := mt.Include{E: name, Only: c.only, IgnoreMissing: c.ignore, Sandboxed: c.sandboxed}
	if c.with {
		inc.HasWith = true
		inc.WithKeys = []string{"w", "a"}
		inc.WithVals = []mt.Expr{mt.Op("~", mt.V("a"), mt.S("!")), mt.S("a-with")}
		if c.overlap == 1 {
			inc.WithKeys = []string{"w"}
			inc.WithVals = inc.WithVals[:1]
		}
		if c.overlap == 2 {
			// `with` overrides also with null, false, 0 and the empty string
			inc.WithKeys = []string{"w", "a", "z"}
			inc.WithVals = []mt.Expr{mt.S(""), mt.Null(), mt.I(0)}
		}
	}
	core := []mt.Stmt{mt.T("<<"), inc, mt.T(">>")}
	core = append(core, probe("m")...)
	main := []mt.Stmt{mt.Macro{Name: "mm", Body: []mt.Stmt{mt.T("MM-MAIN")}}}
	switch c.placement {
	case 0:
		main = append(main, core...)
	case 1:
		main = append(main, mt.For{Val: "ii", Seq: mt.Arr{Items: []mt.Expr{mt.I(1), mt.I(2)}}, Body: append(core, mt.P(mt.Attr{E: mt.V("loop"), Name: "index"}))})
	case 2:
		main = append(main, mt.Block{Name: "content", Body: core})
	default:
		main = append(main, mt.Macro{Name: "wrap", Params: []string{"a", "z", "tname", "nn"}, Body: core}, mt.P(mt.MCall{Name: "wrap", Args: []mt.Expr{mt.V("a"), mt.V("z"), mt.V("tname"), mt.V("nn")}}))
	}
	main = append(main, mt.T("#"), mt.P(mt.MCall{Name: "mm"}), mt.T("#"), mt.Block{Name: "later", Body: []mt.Stmt{mt.T("LATER-MAIN:"), mt.P(mt.V("a"))}})
	main = append(main, probe("end")...)
	set.Add("main", main)
	ctx := map[string]mt.Val{"a": "A", "z": "Z", "tname": target, "nn": nil}
	return set, ctx
}

func (p *c11) check(rec *core.Recorder, class string, set *mt.TmplSet, ctx map[string]mt.Val, extraSrc map[string]string) {
	in := mt.NewInterp(set)
	want, werr := in.Render("main", ctx)
	if werr != nil && ErrIsUndefined(werr) {
		rec.Count("skipped-undefined", 1)
		rec.Notes["undefined"] = werr.Error()
		return
	}
	srcs := (&mt.Printer{}).SourceSet(set)
	for k, v := range extraSrc {
		srcs[k] = v
	}
	srcs = maybeLarge(rec, srcs)
	canon := canonSrcs(srcs) + canonCtx(ctx)
	rec.Eval(class, canon, true)
	gctx := ctxToGo(ctx)
	setup := func(e *twig.Engine) { e.EnableSandbox(allowAll{}) }
	if !strings.Contains(srcs["main"], " only") && !strings.Contains(canon, " only %}") {
		// without `only` anywhere, a global named like a variable of the includer never wins over it
		setup = shadowedGlobals(rec, canon, gctx, setup)
	}
	res := renderFresh(srcs, "main", gctx, setup)
	if res.Panicked {
		rec.Violate("panic", "panic@"+res.Site, "engine panicked: "+res.PanicVal, caseDump(srcs, "main", ctx, nil), res.Stack)
		return
	}
	if werr != nil {
		rec.Count("expected-errors", 1)
		if res.Err == nil {
			rec.Violate("reference-model", core.SigHash("c11-exp-err", canon),
				fmt.Sprintf("include of a missing template without 'ignore missing' must fail (%v); engine returned output %s", werr, core.Q(core.Trunc(res.Out, 200))),
				caseDump(srcs, "main", ctx, nil), "")
		} else if res.Out != "" {
			rec.Violate("reference-model", core.SigHash("c11-err-out", canon), "error returned together with output "+core.Q(core.Trunc(res.Out, 200)), caseDump(srcs, "main", ctx, nil), "")
		} else {
			var missing *mt.ErrMissing
			if errors.As(werr, &missing) && !errors.Is(res.Err, twig.ErrTemplateNotFound) {
				rec.Count("missing-error-not-ErrTemplateNotFound", 1)
			}
		}
		return
	}
	if res.Err != nil || res.Out != want {
		rec.Violate("reference-model", core.SigHash("c11", canon),
			fmt.Sprintf("engine gave %s (err=%v), include semantics require %s; main = %s", core.Q(core.Trunc(res.Out, 400)), res.Err, core.Q(core.Trunc(want, 400)), core.Q(core.Trunc(srcs["main"], 400))),
			caseDump(srcs, "main", ctx, map[string]any{"expected": want, "got": res.Out, "err": res.ErrStr()}), "")
		return
	}
	if rec.WantSample(class) {
		rec.Sample(class, map[string]any{"templates": srcs, "output": want})
	}
}

func (p *c11) Run(rec *core.Recorder, seed uint64, idx int, tier string) {
	if idx < 1728 {
		c := c11Case{with: idx&1 != 0, only: idx&2 != 0, ignore: idx&4 != 0, sandboxed: idx&8 != 0}
		k := idx >> 4 // 0..107
		c.nameForm = k % 3
		c.placement = k / 3 % 4
		c.target = k / 12 % 3
		c.overlap = k / 36 % 3
		set, ctx := p.build(c)
		p.check(rec, fmt.Sprintf("grid-target%d", c.target), set, ctx, nil)
		return
	}
	idx -= 1728
	if idx < 96 {
		c := c11Case{extInc: true, with: idx&1 != 0, only: idx&2 != 0, placement: idx / 4 % 4, overlap: idx / 16 % 2, nameForm: idx / 32 % 3}
		set, ctx := p.build(c)
		p.check(rec, "included-template-extends", set, ctx, nil)
		return
	}
	idx -= 96
	if idx < 96 {
		c := c11Case{inBranch: 1 + idx%3, with: idx/3&1 != 0, only: idx/6&1 != 0, placement: idx / 12 % 4, overlap: idx / 48 % 2}
		set, ctx := p.build(c)
		p.check(rec, "mutations-in-branches", set, ctx, nil)
		return
	}
	idx -= 96
	if idx < 60 {
		// failures other than "does not exist" must surface even with `ignore missing`
		c := c11Case{ignore: true, with: idx&1 != 0, only: idx&2 != 0, sandboxed: idx&4 != 0, nameForm: idx / 8 % 3, placement: idx / 24 % 3}
		set, ctx := p.build(c)
		kind := idx % 5
		broken := map[string]string{}
		var setup func(*twig.Engine)
		switch kind {
		case 0:
			broken["inc"] = "{% if %}broken"
		case 1:
			broken["inc"] = "before {{ 1 / 0 }} after"
		case 2:
			broken["inc"] = "x{{ 'v'|no_such_filter }}y"
		case 3:
			broken["inc"] = "x{% include 'really_missing' %}y"
		default:
			broken["inc"] = "x{{ boom() }}y"
			setup = func(e *twig.Engine) {
				e.AddFunction("boom", func(args ...interface{}) (interface{}, error) { return nil, errSentinel })
			}
		}
		srcs := (&mt.Printer{}).SourceSet(set)
		for k, v := range broken {
			srcs[k] = v
		}
		canon := canonSrcs(srcs)
		rec.Eval("ignore-missing-other-failure", canon, true)
		res := renderFresh(srcs, "main", ctxToGo(ctx), func(e *twig.Engine) {
			e.EnableSandbox(allowAll{})
			if setup != nil {
				setup(e)
			}
		})
		if res.Panicked {
			rec.Violate("panic", "panic@"+res.Site, "engine panicked: "+res.PanicVal, caseDump(srcs, "main", ctx, nil), res.Stack)
			return
		}
		if res.Err == nil {
			rec.Violate("ignore-missing", core.SigHash("c11-ignore-swallow", canon),
				fmt.Sprintf("'ignore missing' swallowed a failure other than a missing template (included source %s); output %s", core.Q(broken["inc"]), core.Q(core.Trunc(res.Out, 200))),
				caseDump(srcs, "main", ctx, nil), "")
		}
		return
	}
	idx -= 60
	if idx < 20 {
		// the same through names written relative to the includer ('./', '../'): the resolved template exists and fails
		kind, rel := idx%5, idx/5
		broken := []string{"{% if %}broken", "before {{ 1 / 0 }} after", "x{{ 'v'|no_such_filter }}y", "x{% include './really_missing' %}y", "x{{ boom() }}y"}[kind]
		var srcs map[string]string
		var main string
		switch rel {
		case 0:
			main, srcs = "d/main", map[string]string{"d/main": "A[{% include './inc' ignore missing %}]B", "d/inc": broken}
		case 1:
			main, srcs = "d/e/main", map[string]string{"d/e/main": "A[{% include '../inc' ignore missing %}]B", "d/inc": broken}
		case 2:
			main, srcs = "d/main", map[string]string{"d/main": "A[{% include './sub/inc' ignore missing with {'z': 1} %}]B", "d/sub/inc": broken}
		default:
			// control: a relative name that resolves to nothing is a missing template
			main, srcs = "d/main", map[string]string{"d/main": "A[{% include './nothing_here' ignore missing %}]B", "d/inc": broken}
		}
		canon := canonSrcs(srcs)
		rec.Eval("ignore-missing-relative", canon, true)
		res := renderFresh(srcs, main, nil, func(e *twig.Engine) {
			e.AddFunction("boom", func(args ...interface{}) (interface{}, error) { return nil, errSentinel })
		})
		if res.Panicked {
			rec.Violate("panic", "panic@"+res.Site, "engine panicked: "+res.PanicVal, map[string]any{"templates": srcs}, res.Stack)
			return
		}
		if rel == 3 {
			if res.Err != nil || res.Out != "A[]B" {
				rec.Violate("ignore-missing", "c11-ignore-relative-missing", fmt.Sprintf("'ignore missing' on a relative name that resolves to nothing gave %s err=%v, want \"A[]B\"", core.Q(res.Out), res.Err), map[string]any{"templates": srcs}, "")
			}
			return
		}
		if res.Err == nil {
			rec.Violate("ignore-missing", core.SigHash("c11-ignore-swallow-relative", canon),
				fmt.Sprintf("'ignore missing' swallowed a failure other than a missing template behind a relative name (included source %s); output %s", core.Q(broken), core.Q(core.Trunc(res.Out, 200))),
				map[string]any{"templates": srcs, "render": main}, "")
		}
		return
	}
	idx -= 20
	if idx < 4*3*2*3 {
		// `only` hides everything the includer has: also the macros it defined or imported (names, not only variables)
		origin, probe, form, place := idx%4, idx/4%3, idx/12%2, idx/24%3
		name := "badge"
		var head string
		switch origin {
		case 0:
			head = "{% macro badge(x) %}<LEAK:{{ x }}>{% endmacro %}"
		case 1:
			head = "{% from 'mlib' import badge %}"
		case 2:
			head = "{% from 'mlib' import other as badge %}"
		default:
			head, name = "{% import 'mlib' as badge %}", "badge"
		}
		var probeSrc string
		switch probe {
		case 0:
			probeSrc = "{% if " + name + " %}VISIBLE{% else %}hidden{% endif %}"
		case 1:
			probeSrc = "{% if " + name + " is defined %}VISIBLE{% else %}hidden{% endif %}"
		default:
			probeSrc = "{{ " + name + "('arg') }}"
			if origin == 3 {
				probeSrc = "{{ badge.badge('arg') }}"
			}
		}
		inc := "{% include 'probe' only %}"
		if form == 1 {
			inc = "{% include 'probe' with {'z': 1} only %}"
		}
		body := "[" + inc + "]"
		switch place {
		case 1:
			body = "{% for i in [1, 2] %}[" + inc + "]{% endfor %}"
		case 2:
			body = "{% if true %}[" + inc + "]{% endif %}{{ 1 }}"
		}
		srcs := map[string]string{
			"mlib":  "{% macro badge(x) %}<LEAK:{{ x }}>{% endmacro %}{% macro other(x) %}<LEAK2:{{ x }}>{% endmacro %}",
			"main":  head + body,
			"probe": probeSrc,
		}
		canon := canonSrcs(srcs)
		rec.Eval("only-hides-callables", canon, true)
		res := renderFresh(srcs, "main", nil, nil)
		if res.Panicked {
			rec.Violate("panic", "panic@"+res.Site, "engine panicked: "+res.PanicVal, map[string]any{"templates": srcs}, res.Stack)
			return
		}
		if strings.Contains(res.Out, "VISIBLE") || strings.Contains(res.Out, "LEAK") {
			rec.Violate("only-scope", fmt.Sprintf("only-leaks-callable:origin%d:probe%d", origin, probe),
				fmt.Sprintf("a template included with `only` sees the includer's macro %q: output %s (err=%v); includer %s, included %s", name, core.Q(core.Trunc(res.Out, 200)), res.Err, core.Q(srcs["main"]), core.Q(probeSrc)),
				map[string]any{"templates": srcs}, "")
		}
		return
	}
	idx -= 4 * 3 * 2 * 3
	if idx < 6*4*3 {
		// what the included template imports or defines stays in the included template: the includer's own macro of the
		// same name is what the includer calls afterwards, and a name only the included template knows stays unknown
		what, form, probe := idx%6, idx/6%4, idx/24%3
		var incSrc string
		switch what {
		case 0:
			incSrc = "{% from 'mlib' import badge %}i{{ badge('i') }}"
		case 1:
			incSrc = "{% from 'mlib' import other as badge %}i{{ badge('i') }}"
		case 2:
			incSrc = "{% import 'mlib' as badge %}i{{ badge.other('i') }}"
		case 3:
			incSrc = "{% macro badge(x) %}<INC:{{ x }}>{% endmacro %}i{{ badge('i') }}"
		case 4:
			incSrc = "{% from 'mlib' import badge, other %}{% from 'mlib' import other as extra %}i{{ extra('i') }}"
		default:
			incSrc = "{% include 'deeper' %}i"
		}
		inc := "{% include 'inc' %}"
		switch form {
		case 1:
			inc = "{% include 'inc' with {'z': 1} %}"
		case 2:
			inc = "{% for k in [1, 2] %}{% include 'inc' %}{% endfor %}"
		case 3:
			inc = "{% include 'mid' %}"
		}
		srcs := map[string]string{
			"mlib":   "{% macro badge(x) %}<LIB:{{ x }}>{% endmacro %}{% macro other(x) %}<LIB2:{{ x }}>{% endmacro %}",
			"inc":    incSrc,
			"mid":    "m{% include 'inc' %}",
			"deeper": "{% from 'mlib' import other as badge %}{% from 'mlib' import other as extra %}d{{ badge('d') }}",
		}
		head := "{% macro badge(x) %}<MINE:{{ x }}>{% endmacro %}"
		var after, wantTail string
		wantErr := false
		switch probe {
		case 0:
			after, wantTail = "{{ badge('m') }}", "<MINE:m>"
		case 1:
			after, wantTail = "{{ _self.badge('m') }}", "<MINE:m>"
		default:
			// control first: the name is unknown to the includer before the include, so it must be afterwards
			after, wantErr = "{{ extra('m') }}", true
		}
		srcs["main"] = head + "[" + inc + "]" + after
		srcs["control"] = head + "[]" + after
		canon := canonSrcs(srcs)
		rec.Eval("included-imports-stay-inside", canon, true)
		res := renderFresh(srcs, "main", nil, nil)
		ctl := renderFresh(srcs, "control", nil, nil)
		if res.Panicked || ctl.Panicked {
			rec.Violate("panic", "panic@"+res.Site+ctl.Site, "engine panicked: "+res.PanicVal+ctl.PanicVal, map[string]any{"templates": srcs}, res.Stack+ctl.Stack)
			return
		}
		if wantErr {
			if (ctl.Err != nil) != (res.Err != nil) {
				rec.Violate("includer-state", fmt.Sprintf("included-name-leaks:what%d:form%d", what, form),
					fmt.Sprintf("the includer calls a name only the included template imported: without the include err=%v, after the include out=%s err=%v", ctl.Err, core.Q(core.Trunc(res.Out, 200)), res.Err),
					map[string]any{"templates": srcs}, "")
			}
			return
		}
		if res.Err != nil || !strings.HasSuffix(res.Out, "]"+wantTail) {
			rec.Violate("includer-state", fmt.Sprintf("included-macro-replaces-includers:what%d:form%d:probe%d", what, form, probe),
				fmt.Sprintf("after including a template that imports or defines a macro named like the includer's own, the includer's call gave %s (err=%v), want it to end with %s", core.Q(core.Trunc(res.Out, 200)), res.Err, core.Q(wantTail)),
				map[string]any{"templates": srcs}, "")
		}
		return
	}
	idx -= 6 * 4 * 3
	if idx%40 == 27 {
		// one optional include tag whose name varies: a name that does not exist gives nothing, a name that exists is rendered,
		// in whatever order the two come (within one render, and from one render of the template to the next)
		r := core.NewRand("C11opt", seed, idx)
		base := []string{"part", "nope", "part", "other", "gone", "other"}
		names := make([]string, len(base))
		for i, j := range r.Perm(len(base)) {
			names[i] = base[j]
		}
		srcs := map[string]string{"part": "P{{ x }}", "other": "O{{ x }}",
			"main": "{% for n in ns %}[{% include n ignore missing %}]{% endfor %}|<{% include w ignore missing with {'x': 9} %}>|{% include ['nope', w] ignore missing %}"}
		out := map[string]string{"part": "P", "other": "O", "nope": "", "gone": ""}
		rec.Eval("optional-includes", canonSrcs(srcs)+fmt.Sprint(names), true)
		rec.Count("optional-include-histories", 1)
		var got, want []string
		var rerr error
		panicked, site, pv, stack := core.Guard(func() {
			e := freshEngine(srcs)
			for round := 0; round < 3 && rerr == nil; round++ {
				w := names[(round*2+1)%len(names)]
				ns := make([]interface{}, len(names))
				var wb strings.Builder
				for i, n := range names {
					ns[i] = n
					wb.WriteString("[" + out[n])
					if out[n] != "" {
						wb.WriteString("7")
					}
					wb.WriteString("]")
				}
				wb.WriteString("|<" + out[w])
				if out[w] != "" {
					wb.WriteString("9")
				}
				wb.WriteString(">|")
				var o string
				o, rerr = e.Render("main", map[string]interface{}{"ns": ns, "w": w, "x": 7})
				if i := strings.LastIndex(o, "|"); i >= 0 {
					o = o[:i+1] // (what an array of names resolves to is not judged here)
				}
				got, want = append(got, o), append(want, wb.String())
			}
		})
		cs := map[string]any{"templates": srcs, "names": names}
		if panicked {
			rec.Violate("panic", "panic@"+site, "engine panicked: "+pv, cs, stack)
			return
		}
		if rerr != nil || strings.Join(got, "\n") != strings.Join(want, "\n") {
			rec.Violate("reference-model", "c11-optional-include", fmt.Sprintf("an `ignore missing` include with a varying name, rendered three times: engine gave %s (err=%v), include semantics require %s", core.Q(strings.Join(got, " / ")), rerr, core.Q(strings.Join(want, " / "))), cs, "")
		}
		return
	}
	if idx%40 == 17 {
		// an include inside a loop reads the includer's loop variables, before and after loops of its own
		r := core.NewRand("C11loop", seed, idx)
		n := r.Range(2, 5)
		inner := []string{"{% for y in [1, 2] %}.{% endfor %}", "{% for y in [] %}x{% else %}e{% endfor %}", "{% for y in 'ab' %}{% for z in [1] %}:{% endfor %}{% endfor %}", "{% set q = 1 %}"}[r.Intn(4)]
		innerOut := map[string]string{"{% for y in [1, 2] %}.{% endfor %}": "..", "{% for y in [] %}x{% else %}e{% endfor %}": "e", "{% for y in 'ab' %}{% for z in [1] %}:{% endfor %}{% endfor %}": "::", "{% set q = 1 %}": ""}[inner]
		srcs := map[string]string{
			"inc":  "[{{ loop.index }}" + inner + "{{ loop.index }}/{{ loop.length }}{{ loop.last ? 'L' : '' }}{{ item }}]",
			"main": "{% for item in range(1, " + fmt.Sprint(n) + ") %}{% include 'inc' %}{% endfor %}|{% for item in ['a'] %}{% include 'inc' with {'extra': 1} %}{% endfor %}",
		}
		var want strings.Builder
		for i := 1; i <= n; i++ {
			last := ""
			if i == n {
				last = "L"
			}
			fmt.Fprintf(&want, "[%d%s%d/%d%s%d]", i, innerOut, i, n, last, i)
		}
		fmt.Fprintf(&want, "|[1%s1/1La]", innerOut)
		rec.Eval("includer-loop-variables", canonSrcs(srcs), true)
		rec.Count("includer-loop-variables", 1)
		res := renderFresh(srcs, "main", nil, nil)
		if res.Panicked || res.Err != nil || res.Out != want.String() {
			rec.Violate("reference-model", "c11-includer-loop", fmt.Sprintf("an include inside a loop, reading the includer's loop variables around a loop of its own: engine gave %s (err=%v, panicked=%v), include semantics require %s", core.Q(core.Trunc(res.Out, 300)), res.Err, res.Panicked, core.Q(want.String())), map[string]any{"templates": srcs}, res.Stack)
		}
		return
	}
	if idx%40 == 39 {
		// includes nested dozens deep: the innermost template still reads what the outermost ones defined
		r := core.NewRand("C11deep", seed, idx)
		depth := []int{31, 32, 33, 36, 40, 64}[r.Intn(6)]
		srcs := map[string]string{}
		var want strings.Builder
		switch r.Intn(4) {
		case 0:
			// a template that includes itself without `with`: what changes from level to level is a loop variable of the
			// includer (a tree walk), which the included template reads like any other variable of its includer
			srcs["tree"] = "<{{ node.name }}{% for node in node.children %}{% include 'tree' %}{% endfor %}>"
			srcs["main"] = "{% include 'tree' %}|{{ node.name }}"
			leaf := func(n string) map[string]interface{} {
				return map[string]interface{}{"name": n, "children": []interface{}{}}
			}
			tree := map[string]interface{}{"name": "r", "children": []interface{}{
				map[string]interface{}{"name": "a", "children": []interface{}{leaf("a1"), leaf("a2")}}, leaf("b"),
				map[string]interface{}{"name": "c", "children": []interface{}{map[string]interface{}{"name": "c1", "children": []interface{}{leaf("c11")}}}}}}
			rec.Eval("deep-include-chains", canonSrcs(srcs), true)
			rec.Count("deep-include-chains", 1)
			res := renderFresh(srcs, "main", map[string]interface{}{"node": tree}, nil)
			wantTree := "<r<a<a1><a2>><b><c<c1<c11>>>>|r"
			if res.Panicked || res.Err != nil || res.Out != wantTree {
				rec.Violate("reference-model", "c11-self-include:tree", fmt.Sprintf("a template that includes itself inside a loop over the children of its node: engine gave %s (err=%v, panicked=%v), include semantics require %s", core.Q(core.Trunc(res.Out, 300)), res.Err, res.Panicked, core.Q(wantTree)), map[string]any{"templates": srcs}, res.Stack)
			}
			return
		case 1:
			// ... or a counter the includer sets before it includes itself again
			limit := r.Range(2, 9)
			srcs["cnt"] = "{{ depth }};{% if depth < " + fmt.Sprint(limit) + " %}{% set depth = depth + 1 %}{% include 'cnt' %}{% endif %}"
			srcs["main"] = "{% set depth = 0 %}{% include 'cnt' %}|{{ depth }}"
			var w strings.Builder
			for i := 0; i <= limit; i++ {
				fmt.Fprintf(&w, "%d;", i)
			}
			w.WriteString("|0")
			rec.Eval("deep-include-chains", canonSrcs(srcs), true)
			rec.Count("deep-include-chains", 1)
			res := renderFresh(srcs, "main", nil, nil)
			if res.Panicked || res.Err != nil || res.Out != w.String() {
				rec.Violate("reference-model", "c11-self-include:counter", fmt.Sprintf("a template that sets a counter and includes itself again: engine gave %s (err=%v, panicked=%v), include semantics require %s", core.Q(core.Trunc(res.Out, 300)), res.Err, res.Panicked, core.Q(w.String())), map[string]any{"templates": srcs}, res.Stack)
			}
			return
		case 2:
			srcs["node"] = "{{ n }}:{{ title }}{{ top is defined ? '+' : '-' }};{% if n > 0 %}{% include 'node' with {'n': n - 1} %}{% endif %}"
			srcs["main"] = "{% set top = null %}{% include 'node' with {'n': " + fmt.Sprint(depth) + "} %}"
			for n := depth; n >= 0; n-- {
				fmt.Fprintf(&want, "%d:T+;", n)
			}
		default:
			for i := 0; i < depth; i++ {
				srcs[fmt.Sprintf("t%d", i)] = fmt.Sprintf("{%% set v%d = 'V%d' %%}<{%% include 't%d' %%}>", i, i, i+1)
			}
			srcs[fmt.Sprintf("t%d", depth)] = fmt.Sprintf("{{ v0 }}|{{ v1 }}|{{ v%d }}|{{ v%d }}|{{ title }}", depth/2, depth-1)
			srcs["main"] = "{% include 't0' %}"
			want.WriteString(strings.Repeat("<", depth))
			fmt.Fprintf(&want, "V0|V1|V%d|V%d|T", depth/2, depth-1)
			want.WriteString(strings.Repeat(">", depth))
		}
		rec.Eval("deep-include-chains", canonSrcs(srcs), true)
		rec.Count("deep-include-chains", 1)
		res := renderFresh(srcs, "main", map[string]interface{}{"title": "T"}, nil)
		cs := map[string]any{"templates": srcs, "depth": depth}
		if res.Panicked {
			rec.Violate("panic", "panic@"+res.Site, "engine panicked: "+res.PanicVal, cs, res.Stack)
			return
		}
		if res.Err != nil || res.Out != want.String() {
			rec.Violate("reference-model", fmt.Sprintf("c11-deep:%d", depth),
				fmt.Sprintf("includes nested %d deep: engine gave %s (err=%v), include semantics require %s", depth, core.Q(core.Trunc(res.Out, 300)), res.Err, core.Q(core.Trunc(want.String(), 300))), cs, "")
		}
		return
	}
	// thorough: random compositions (two includes, deeper nesting)
	r := core.NewRand("C11", seed, idx)
	c := c11Case{with: r.Bool(), only: r.Bool(), ignore: r.Bool(), sandboxed: r.P(1, 4), nameForm: r.Intn(3), placement: r.Intn(4), target: r.Intn(3), overlap: r.Intn(3)}
	c.extInc = c.overlap < 2 && r.P(1, 4)
	if r.P(1, 3) {
		c.inBranch = 1 + r.Intn(3)
	}
	set, ctx := p.build(c)
	// add a second include of a third template in main with different options
	c2 := c11Case{with: r.Bool(), only: r.Bool(), ignore: true, nameForm: 0, target: r.Intn(2)}
	tgt := "inc2"
	if c2.target == 1 {
		tgt = "gone"
	}
	inc2 := mt.Include{E: mt.S(tgt), Only: c2.only, IgnoreMissing: true}
	if c2.with {
		inc2.HasWith, inc2.WithKeys, inc2.WithVals = true, []string{"ii"}, []mt.Expr{mt.Op("+", mt.I(int64(r.Range(1, 9))), mt.I(1))}
	}
	m := set.T["main"]
	m.Body = append(m.Body, mt.T("{2nd:"), inc2, mt.T("}"), mt.T("["), mt.P(mt.V("a")), mt.P(mt.V("w")), mt.P(mt.V("ii")), mt.T("]"))
	p.check(rec, "random-two-includes", set, ctx, nil)
}

var errSentinel = errors.New("verif sentinel failure")
