package props

import (
	"bytes"
	"encoding/json"
	"os"
	"path/filepath"
	"sort"
	"strings"
	"sync"

	"verifharness/internal/core"
)

// The "wild corpus": template sets written by independent authors (sub-agents that saw the engine, not this harness) to
// visit corners the generators do not produce. Entries carry no expected output; they feed the monitors whose oracle needs
// none (repeat equality, history independence, padding invariance, no panic, caller data unchanged, compiled-vs-source,
// serial equality). Files: $VERIF_DIR/corpus/*.json.
type WildEntry struct {
	ID        string                 `json:"id"`
	Note      string                 `json:"note"`
	Templates map[string]string      `json:"templates"`
	Render    string                 `json:"render"`
	Context   map[string]interface{} `json:"context"`
}

var (
	wildOnce sync.Once
	wildAll  []WildEntry
)

func verifDirP() string {
	if d := os.Getenv("VERIF_DIR"); d != "" {
		return d
	}
	return "/verif"
}

// Wild returns the corpus (possibly empty when the directory is missing), in a fixed order.
func Wild() []WildEntry {
	wildOnce.Do(func() {
		files, _ := filepath.Glob(filepath.Join(verifDirP(), "corpus", "*.json"))
		sort.Strings(files)
		for _, f := range files {
			if strings.HasPrefix(filepath.Base(f), "_") {
				continue // derived files (see tools/mkcorpus.py)
			}
			b, err := os.ReadFile(f)
			if err != nil {
				continue
			}
			dec := json.NewDecoder(bytes.NewReader(b))
			dec.UseNumber()
			var es []WildEntry
			if dec.Decode(&es) != nil {
				continue
			}
			for _, e := range es {
				if e.Render == "" || e.Templates[e.Render] == "" && len(e.Templates) == 0 {
					continue
				}
				wildAll = append(wildAll, e)
			}
		}
	})
	return wildAll
}

var (
	wildSmallOnce sync.Once
	wildSmallAll  []WildEntry
)

// WildSmall returns the entries whose templates are all small (corpus/_small.json, built by tools/mkcorpus.py): what a
// process that performs a single operation can afford to load.
func WildSmall() []WildEntry {
	wildSmallOnce.Do(func() {
		b, err := os.ReadFile(filepath.Join(verifDirP(), "corpus", "_small.json"))
		if err != nil {
			return
		}
		dec := json.NewDecoder(bytes.NewReader(b))
		dec.UseNumber()
		dec.Decode(&wildSmallAll)
	})
	return wildSmallAll
}

func wildPickSmall(r *core.Rand) (WildEntry, bool) {
	w := WildSmall()
	if len(w) == 0 {
		return WildEntry{}, false
	}
	return w[r.Intn(len(w))], true
}

// wildValue turns decoded JSON into the Go shapes a caller would pass: integral numbers become int, others float64.
// perm != nil rebuilds maps with a permuted insertion order (fresh allocations either way).
func wildValue(v interface{}, r *core.Rand) interface{} {
	switch x := v.(type) {
	case json.Number:
		if i, err := x.Int64(); err == nil && !strings.ContainsAny(x.String(), ".eE") {
			return int(i)
		}
		f, _ := x.Float64()
		return f
	case map[string]interface{}:
		keys := make([]string, 0, len(x))
		for k := range x {
			keys = append(keys, k)
		}
		sort.Strings(keys)
		if r != nil {
			p := r.Perm(len(keys))
			nk := make([]string, len(keys))
			for i, j := range p {
				nk[i] = keys[j]
			}
			keys = nk
		}
		m := make(map[string]interface{}, len(x))
		for _, k := range keys {
			m[k] = wildValue(x[k], r)
		}
		return m
	case []interface{}:
		out := make([]interface{}, len(x))
		for i := range x {
			out[i] = wildValue(x[i], r)
		}
		return out
	}
	return v
}

// Ctx builds a fresh context for the entry.
func (e WildEntry) Ctx(r *core.Rand) map[string]interface{} {
	if e.Context == nil {
		return map[string]interface{}{}
	}
	return wildValue(e.Context, r).(map[string]interface{})
}

// Srcs returns a copy of the entry's templates.
func (e WildEntry) Srcs() map[string]string {
	m := make(map[string]string, len(e.Templates))
	for k, v := range e.Templates {
		m[k] = v
	}
	return m
}

// wildPick returns a corpus entry chosen by r, or false when the corpus is empty.
func wildPick(r *core.Rand) (WildEntry, bool) {
	w := Wild()
	if len(w) == 0 {
		return WildEntry{}, false
	}
	return w[r.Intn(len(w))], true
}
