package props

import (
	"fmt"
	"strings"

	"github.com/semihalev/twig"

	"verifharness/internal/core"
)

// C04 — literal text is emitted exactly; comments and verbatim bodies are inert.
type c04 struct{ base }

func init() {
	Register(&c04{base{
		id: "C04", level: "exploration",
		technique: "by-construction expected bytes (alternating literal segments and tags with independently known values) + non-interference and spy monitors for comment and verbatim bodies; exhaustive single-byte and byte-pair grids next to each tag kind",
		rule: "case = template seg0 tag1 seg1 ... tagN segN whose segments are arbitrary bytes (all 256 values, invalid UTF-8, NUL, lone braces, quotes, backslashes, CR/LF) and whose tags are {{ v }} with a unique marker value, a true/false if, a set, or a comment; expected output = segments joined by the known tag values, required of Render and of RenderTo into a writer that implements io.Writer only (writes concatenated in call order). " +
			"Comment and verbatim bodies contain spies (tick(), boom filter, include of a missing template) and context variables; the spies must record 0 calls and three different contexts must give identical output without any context marker. " +
			"Non-trivial: a segment with a non-ASCII or delimiter-like byte next to a tag, or a source longer than 4096 bytes. Distinct = distinct source bytes.",
		assumptions: []string{
			"a segment never contains {{ {% {#, never ends with '{' before a tag, and never ends with a backslash directly before a tag (the engine's \\{{ escape is a different construct)",
			"no dash modifiers here (C13); verbatim output need not equal the body bytes (only inertness is stated)",
		},
		quick: 272 + 2048 + 60000, thorough: 272 + 2048 + 131072 + 600000, minQuick: 20000, minThorough: 100000,
	}})
}

func (p *c04) RequiredCounters(string) []string {
	return []string{"plain-writer-renders", "class:byte-grid", "class:random-segments", "class:comment", "class:verbatim", "long-sources", "escape-checks"}
}

func c04BadSegment(seg string, tagFollows bool) bool {
	if strings.Contains(seg, "{{") || strings.Contains(seg, "{%") || strings.Contains(seg, "{#") {
		return true
	}
	if tagFollows && (strings.HasSuffix(seg, "{") || strings.HasSuffix(seg, "\\")) {
		return true
	}
	return false
}

type c04Tag struct {
	src string
	val string
}

func c04Tags(r *core.Rand, k int) c04Tag {
	m := fmt.Sprintf("M%dq", k)
	switch r.Intn(8) {
	case 7:
		// body filters that leave text without '<' and '>' alone: every byte of the body must come out as it went in
		body := strings.NewReplacer("<", "(", ">", ")", "{{", "{ ", "{%", "{ ", "{#", "{ ", "\\", "/").Replace(c04Segment(r)) + m
		if strings.HasSuffix(body, "{") {
			body += "."
		}
		w := [][2]string{{"{% spaceless %}", "{% endspaceless %}"}, {"{% apply spaceless %}", "{% endapply %}"}, {"{% apply raw %}", "{% endapply %}"}}[r.Intn(3)]
		return c04Tag{w[0] + body + w[1], body}
	case 0, 1, 2:
		if core.Hash64(m, fmt.Sprint(k), "literal-with-a-delimiter")%5 == 0 {
			// a string literal inside the tag that spells a delimiter of another kind: it is part of the expression, and the
			// text around the tag is text as before
			return []c04Tag{{"{{ '{#' }}", "{#"}, {"{{ '{%' }}", "{%"}, {"{% set o" + fmt.Sprint(k%3) + " = '{{' %}", ""}, {"{{ '#}' ~ '{#' }}", "#}{#"}, {"{% if '{{' %}" + m + "{% endif %}", m},
				{"{{ \"{%\" ~ v0 }}", "{%V0v"}, {"{{ ['{#', '{{']|join }}", "{#{{"}}[(k+len(m))%7]
		}
		return c04Tag{"{{ v" + fmt.Sprint(k%4) + " }}", "V" + fmt.Sprint(k%4) + "v"}
	case 3:
		return c04Tag{"{% if yes %}" + m + "{% endif %}", m}
	case 4:
		return c04Tag{"{% if no %}" + m + "{% endif %}", ""}
	case 5:
		return c04Tag{"{% set z" + fmt.Sprint(k%3) + " = 1 %}", ""}
	default:
		// comment shapes, including the empty and the unpadded ones
		return c04Tag{[]string{"{# comment " + m + " #}", "{##}", "{# #}", "{#" + m + "#}", "{#\n#}", "{# {{ v0 }} #}", "{#}#}", "{#- " + m + " -#}", "{#-" + m + "-#}", "{#- -#}", "{# -" + m + "- #}"}[r.Intn(11)], ""}
	}
}

func c04Ctx() map[string]interface{} {
	return map[string]interface{}{"v0": "V0v", "v1": "V1v", "v2": "V2v", "v3": "V3v", "yes": true, "no": false}
}

func c04Segment(r *core.Rand) string {
	n := []int{0, 1, 1, 2, 3, 5, 8, 20, 60, 300}[r.Intn(10)]
	var b strings.Builder
	pool := []string{"{", "}", "%", "#", "}}", "%}", "#}", "\"", "'", "\\", "\r\n", "\n", "\r", "\t", " ", "\x00", "\xff", "\xc3", "\xe2\x82", "é", "日本", "😀", "<b>", "&amp;", "-", "--", "{ {", "{ %", "$", "`", "|", "~", "text", "if", "endif", "{{"[:1], "\ufeff", "\u200b", "\u2028", "\u00a0", "\xef\xbb", "\u0085", "\x1a", "\x7f"}
	for i := 0; i < n; i++ {
		switch r.Intn(4) {
		case 0:
			b.WriteByte(byte(r.Intn(256)))
		case 1:
			b.WriteString(pool[r.Intn(len(pool))])
		default:
			b.WriteByte("abcdefghij KLMNOP0123456789.,;:!?()[]"[r.Intn(37)])
		}
	}
	return b.String()
}

func (p *c04) checkExact(rec *core.Recorder, class, src, want string, nontrivial bool) {
	rec.Eval(class, src, nontrivial)
	if len(src) > 4096 {
		rec.Count("long-sources", 1)
	}
	res := renderFresh(map[string]string{"main": src}, "main", c04Ctx(), nil)
	cs := map[string]any{"source": core.Trunc(fmt.Sprintf("%q", src), 1500), "source_len": len(src)}
	if res.Panicked {
		rec.Violate("panic", "panic@"+res.Site, "engine panicked: "+res.PanicVal, cs, res.Stack)
		return
	}
	if res.Err != nil || res.Out != want {
		// first difference
		i := 0
		for i < len(res.Out) && i < len(want) && res.Out[i] == want[i] {
			i++
		}
		rec.Violate("exact-text", core.SigHash("c04", src),
			fmt.Sprintf("literal text not emitted exactly (err=%v): output differs at byte %d: got …%q want …%q; source %s", res.Err, i, core.Trunc(res.Out[min(i, len(res.Out)):], 40), core.Trunc(want[min(i, len(want)):], 40), core.Trunc(fmt.Sprintf("%q", src), 300)),
			cs, "")
		return
	}
	// the same through RenderTo into a writer that is nothing but an io.Writer (a file, a socket, an HTTP response): what
	// arrives there, concatenated in the order of the Write calls, is the same text
	sink := &c04Sink{}
	var toErr error
	panicked, site, pv, stack := core.Guard(func() {
		toErr = freshEngine(map[string]string{"main": src}).RenderTo(sink, "main", c04Ctx())
	})
	rec.Count("plain-writer-renders", 1)
	if panicked {
		rec.Violate("panic", "panic@"+site, "engine panicked in RenderTo: "+pv, cs, stack)
		return
	}
	if got := string(sink.b); toErr != nil || got != want {
		i := 0
		for i < len(got) && i < len(want) && got[i] == want[i] {
			i++
		}
		rec.Violate("exact-text", core.SigHash("c04-writer", src),
			fmt.Sprintf("RenderTo into a plain io.Writer delivered other text than Render (err=%v, %d Write calls): differs at byte %d: got …%q want …%q; source %s", toErr, sink.calls, i, core.Trunc(got[min(i, len(got)):], 40), core.Trunc(want[min(i, len(want)):], 40), core.Trunc(fmt.Sprintf("%q", src), 300)),
			cs, "")
		return
	}
	if rec.WantSample(class) {
		cs["output"] = core.Trunc(fmt.Sprintf("%q", want), 300)
		rec.Sample(class, cs)
	}
}

// c04Sink implements io.Writer and nothing else
type c04Sink struct {
	b     []byte
	calls int
}

func (s *c04Sink) Write(p []byte) (int, error) {
	s.calls++
	s.b = append(s.b, p...)
	return len(p), nil
}

func (p *c04) Run(rec *core.Recorder, seed uint64, idx int, tier string) {
	r := core.NewRand("C04", seed, idx)
	tagKinds := []c04Tag{{"{{ v0 }}", "V0v"}, {"{% if yes %}Y{% endif %}", "Y"}, {"{# c #}", ""}, {"{##}", ""}}
	// ---- grid 0: things a file can begin or end with (byte-order marks, partial marks, zero-width characters, shebang and
	// XML prologues, NUL, line ends), at the very start and the very end of small and large sources
	edges := []string{"\ufeff", "\ufeff\ufeff", "\xef\xbb", "\xff\xfe", "\xfe\xff", "\u200b", "#!/usr/bin/twig\n", "<?xml version=\"1.0\"?>", "\x00", "\r\n", "\n\n", " \t", "\\", "}", "%", "\x1a", "\u2028"}
	if idx < len(edges)*4*2*2 {
		e := edges[idx%len(edges)]
		tk := tagKinds[idx/len(edges)%4]
		large := idx/(len(edges)*4)%2 == 1
		atEnd := idx/(len(edges)*8) == 1
		mid := "mid"
		if large {
			mid = strings.Repeat("filler text with a few words. ", 150)
		}
		src, want := e+tk.src+mid+"z", e+tk.val+mid+"z"
		if atEnd {
			src, want = "a"+mid+tk.src+e, "a"+mid+tk.val+e
			if strings.HasSuffix(tk.src, "}") && (strings.HasPrefix(e, "}") || strings.HasPrefix(e, "%")) {
				return
			}
		}
		if c04BadSegment(e, !atEnd) {
			return
		}
		p.checkExact(rec, "edges", src, want, true)
		return
	}
	idx -= len(edges) * 4 * 2 * 2
	// ---- grid 1: every byte before / after each tag kind
	if idx < 2048 {
		b := string([]byte{byte(idx % 256)})
		tk := tagKinds[idx/256%4]
		after := idx/1024 == 1
		var src, want string
		if after {
			src, want = "x"+tk.src+b+"y", "x"+tk.val+b+"y"
		} else {
			if c04BadSegment("x"+b, true) {
				rec.Count("skipped-excluded-segment", 1)
				return
			}
			src, want = "x"+b+tk.src+"y", "x"+b+tk.val+"y"
		}
		p.checkExact(rec, "byte-grid", src, want, idx%256 >= 128 || strings.ContainsAny(b, "{}%#\\\"'\r\n\x00"))
		return
	}
	idx -= 2048
	// ---- grid 2 (thorough): every byte pair adjacent to a print tag
	if tier == "thorough" {
		if idx < 131072 {
			pair := string([]byte{byte(idx >> 8 & 255), byte(idx & 255)})
			var src, want string
			if idx>>16 == 0 {
				if c04BadSegment(pair, true) {
					rec.Count("skipped-excluded-segment", 1)
					return
				}
				src, want = pair+"{{ v1 }}", pair+"V1v"
			} else {
				if c04BadSegment(pair, false) {
					rec.Count("skipped-excluded-segment", 1)
					return
				}
				src, want = "{{ v1 }}"+pair, "V1v"+pair
			}
			p.checkExact(rec, "byte-pair-grid", src, want, true)
			return
		}
		idx -= 131072
	}
	if idx%24 == 3 {
		p.escaped(rec, r)
		return
	}
	if idx%24 == 9 {
		p.stray(rec, r)
		return
	}
	if idx%24 == 21 {
		// literal text in macro bodies, when the value of a macro call is held while other macros run
		clean := func() string {
			seg := c04Segment(r)
			for c04BadSegment(seg, true) || seg == "" {
				seg = strings.NewReplacer("{{", "{ ", "{%", "{ ", "{#", "{ ").Replace(seg) + "m."
				if strings.HasSuffix(seg, "{") || strings.HasSuffix(seg, "\\") {
					seg += "."
				}
			}
			return seg
		}
		s1, s2, s3 := clean(), clean(), clean()
		if r.P(1, 3) {
			s1 = strings.Repeat(s1, 1+2000/len(s1))
		}
		src := "{% macro m1() %}" + s1 + "{% endmacro %}{% macro m2() %}" + s2 + "{% endmacro %}{% macro w(x) %}<{{ x }}>" + s3 + "{% endmacro %}" +
			"{% set h = m1() %}{% set f = m2() %}{{ h }}|{{ f }}|{{ m1() ~ m2() }}|{{ w(m2()) }}|{{ h }}{% for i in [1, 2] %}{% set g = m2() %}{{ m1() }}{{ g }}{% endfor %}|{{ [m1(), m2()]|join('+') }}"
		want := s1 + "|" + s2 + "|" + s1 + s2 + "|<" + s2 + ">" + s3 + "|" + s1 + s1 + s2 + s1 + s2 + "|" + s1 + "+" + s2
		rec.Count("held-macro-values", 1)
		p.checkExact(rec, "macro-text", src, want, true)
		return
	}
	if idx%24 == 15 {
		// literal text in the body of a loop appears once per iteration, however much the loop writes in all (tens of
		// kilobytes here), before and after other text
		seg := c04Segment(r)
		for c04BadSegment(seg, true) || seg == "" {
			seg = strings.NewReplacer("{{", "{ ", "{%", "{ ", "{#", "{ ").Replace(seg) + "row."
			if strings.HasSuffix(seg, "{") || strings.HasSuffix(seg, "\\") {
				seg += "."
			}
		}
		n := 40000/len(seg) + r.Range(1, 50)
		if n > 4000 {
			n = 4000
		}
		form := r.Intn(3)
		src := "head|" + []string{"{% for i in range(1, " + fmt.Sprint(n) + ") %}", "{% for i in 1..1 %}", "{% for k, i in range(1, " + fmt.Sprint(n) + ") %}"}[form]
		if form == 1 {
			src = "head|{% for j in [1, 2] %}{% for i in range(1, " + fmt.Sprint(n/2+1) + ") %}"
		}
		src += seg + "{% endfor %}"
		want := "head|" + strings.Repeat(seg, n)
		if form == 1 {
			src += "{% endfor %}"
			want = "head|" + strings.Repeat(seg, 2*(n/2+1))
		}
		src, want = src+"|tail", want+"|tail"
		rec.Count("big-loop-templates", 1)
		p.checkExact(rec, "big-loops", src, want, true)
		return
	}
	switch idx % 6 {
	case 4:
		p.comment(rec, r)
		return
	case 5:
		p.verbatim(rec, r)
		return
	}
	// ---- random alternating templates
	n := r.Range(1, 8)
	var src, want strings.Builder
	nontrivial := false
	long := r.P(1, 8)
	trimNext := false // the tag before this segment closed with a dash
	for k := 0; k <= n; k++ {
		seg := c04Segment(r)
		if trimNext && k < n && core.Hash64(seg, fmt.Sprint(k), "adjacent")%3 == 0 {
			// nothing between the dashed delimiter and the next tag: the dash has nothing to remove, and the text after
			// that next tag is none of its business
			seg = ""
		}
		if long && k == n/2 {
			seg += strings.Repeat(c04Segment(r)+"pad ", r.Range(300, 900))
		}
		for c04BadSegment(seg, k < n) {
			seg = strings.NewReplacer("{{", "{ ", "{%", "{ ", "{#", "{ ").Replace(seg)
			if k < n && (strings.HasSuffix(seg, "{") || strings.HasSuffix(seg, "\\")) {
				seg += "."
			}
		}
		for i := 0; i < len(seg); i++ {
			if seg[i] >= 128 || strings.IndexByte("{}%#\\\"'\r\x00", seg[i]) >= 0 {
				nontrivial = true
			}
		}
		src.WriteString(seg)
		if trimNext {
			// (the one exception to "unmodified" that the template itself asks for: blanks right behind a dashed delimiter)
			want.WriteString(strings.TrimLeft(seg, " \t\r\n"))
		} else {
			want.WriteString(seg)
		}
		trimNext = false
		if k < n {
			t := c04Tags(r, k)
			if core.Hash64(t.src, fmt.Sprint(k), "right-dash")%6 == 0 && !strings.HasSuffix(t.src, "#}") {
				// the last delimiter of the tag carries a dash
				t.src = t.src[:len(t.src)-2] + "-" + t.src[len(t.src)-2:]
				trimNext = true
				rec.Count("right-dashed-tags", 1)
			}
			src.WriteString(t.src)
			want.WriteString(t.val)
		}
	}
	p.checkExact(rec, "random-segments", src.String(), want.String(), nontrivial || src.Len() > 4096)
}

type c04Spy struct{ calls int }

func (s *c04Spy) engine(srcs map[string]string) func(e *twig.Engine) {
	return func(e *twig.Engine) {
		e.AddFunction("tick", func(args ...interface{}) (interface{}, error) { s.calls++; return "TICKED", nil })
		e.AddFilter("boom", func(v interface{}, args ...interface{}) (interface{}, error) { s.calls++; return nil, errSentinel })
		e.AddTest("spytest", func(v interface{}, args ...interface{}) (bool, error) { s.calls++; return true, nil })
	}
}

var c04InertBodies = []string{
	"{{ tick() }}", "{{ secret }}", "{{ secret|boom }}", "{% include 'nope' %}", "{% if secret is spytest %}x{% endif %}", "{{ tick(secret) ~ other }}", "{% set secret = tick() %}", "{% for i in tick() %}{{ secret }}{% endfor %}",
	"{{ 1 / 0 }}", "{% extends 'nope' %}", "{{ secret.attr[0]|upper }}", "{% macro m() %}{{ tick() }}{% endmacro %}{{ m() }}", "{% do tick() %}", "{{ other }} and {{ secret }}",
}

func (p *c04) comment(rec *core.Recorder, r *core.Rand) {
	body := c04InertBodies[r.Intn(len(c04InertBodies))]
	// comment bodies may hold any bytes except the closing delimiter
	extra := strings.ReplaceAll(c04Segment(r), "#}", "# }")
	switch r.Intn(4) {
	case 0:
		body = extra + body
	case 1:
		body = body + extra + " {{ unbalanced {% "
	case 2:
		body = strings.ReplaceAll(body, "}}", "}") + extra
	}
	body = strings.ReplaceAll(body, "#}", "# }")
	pad := " "
	if r.P(1, 4) {
		// unpadded, empty and one-byte comment bodies
		pad = ""
		if r.P(1, 2) {
			body = []string{"", " ", "x", "#", "{", "}", "%", "-", "\n", "{{", "{%", "\x00", "\xff"}[r.Intn(13)]
		}
	}
	src := "A{#" + pad + body + pad + "#}B{{ v0 }}C"
	if r.P(1, 3) {
		// a comment directly before and directly after a print tag
		src = "AB{#" + pad + body + pad + "#}{{ v0 }}{#" + pad + body + pad + "#}C"
	}
	want := "AB" + "V0v" + "C"
	rec.Eval("comment", src, true)
	cs := map[string]any{"source": fmt.Sprintf("%q", src)}
	for k := 0; k < 2; k++ {
		spy := &c04Spy{}
		ctx := c04Ctx()
		ctx["secret"] = fmt.Sprintf("SECRET%d", k)
		ctx["other"] = fmt.Sprintf("OTHER%d", k)
		res := renderFresh(map[string]string{"main": src}, "main", ctx, spy.engine(nil))
		if res.Panicked {
			rec.Violate("panic", "panic@"+res.Site, "engine panicked: "+res.PanicVal, cs, res.Stack)
			return
		}
		if spy.calls > 0 {
			rec.Violate("comment-spy", "comment-evaluated", fmt.Sprintf("something inside a comment was evaluated (%d spy calls); source %q", spy.calls, src), cs, "")
			return
		}
		if res.Err != nil || res.Out != want {
			rec.Violate("comment-output", core.SigHash("c04-comment", src), fmt.Sprintf("comment contributed to the output or broke the template: got %q err=%v want %q; source %q", core.Trunc(res.Out, 200), res.Err, want, core.Trunc(src, 300)), cs, "")
			return
		}
	}
	if rec.WantSample("comment") {
		rec.Sample("comment", cs)
	}
}

// escaped: the engine's backslash escape (`\{{`) turns a delimiter into literal text. Whether the backslash itself is kept
// is the engine's business (both readings are accepted); what the statement fixes is that the escaped text is literal text:
// it appears in the output and nothing in it is evaluated, wherever the text stands.
func (p *c04) escaped(rec *core.Recorder, r *core.Rand) {
	esc := []string{"\\{{ v0 }}", "\\{{ secret }}", "\\{% if yes %}", "\\{# note #}", "\\{{ v0|upper }}", "\\{{v0}}"}[r.Intn(6)]
	pre := []string{"", "A", "syntax: ", "é ", "x\n"}[r.Intn(5)]
	post := []string{"", "B", ".", " tail", "\n"}[r.Intn(5)]
	lit := pre + esc + post
	t := map[string]string{"inc": "I[" + lit + "]", "lib": "{% macro em(v0) %}M[" + lit + "]{% endmacro %}{% macro e0() %}N[" + lit + "]{% endmacro %}", "base": "<{% block b %}dflt{% endblock %}>"}
	pos := r.Intn(10)
	switch pos {
	case 0:
		t["main"] = "[" + lit + "]"
	case 1:
		t["main"] = "{% if yes %}[" + lit + "]{% endif %}"
	case 2:
		t["main"] = "{% for i in [1, 2] %}[" + lit + "]{% endfor %}"
	case 3:
		t["main"] = "{% macro dm() %}[" + lit + "]{% endmacro %}{{ dm() }}"
	case 4:
		t["main"] = "{% macro dm(v0) %}[" + lit + "]{% endmacro %}{{ dm('ARGv') }}{{ _self.dm('ARGv') }}"
	case 5:
		t["main"] = "{% import 'lib' as l %}{{ l.em('ARGv') }}{{ l.e0() }}"
	case 6:
		t["main"] = "{% from 'lib' import e0, em as x %}{{ e0() }}{{ x(1) }}"
	case 7:
		t["main"] = "{% extends 'base' %}{% block b %}[" + lit + "]{% endblock %}"
	case 8:
		t["main"] = "{% include 'inc' %}{% include 'inc' with {'v0': 'WITHv'} only %}"
	default:
		t["main"] = "{% apply upper %}[" + lit + "]{% endapply %}"
	}
	ctx := c04Ctx()
	ctx["secret"] = "SECRETv"
	canon := canonSrcs(t)
	rec.Eval("escaped-delimiter", canon, true)
	res := renderFresh(t, "main", ctx, nil)
	cs := map[string]any{"templates": t, "position": pos}
	if res.Panicked {
		rec.Violate("panic", "panic@"+res.Site, "engine panicked: "+res.PanicVal, cs, res.Stack)
		return
	}
	if res.Err != nil {
		rec.Count("escaped-delimiter-errors", 1)
		rec.Notes["escaped-error"] = core.Trunc(res.Err.Error()+" | "+t["main"], 300)
		return
	}
	rec.Count("escape-checks", 1)
	up := strings.ToUpper(res.Out)
	for _, leak := range []string{"V0V", "SECRETV", "ARGV", "WITHV"} {
		if strings.Contains(up, leak) {
			rec.Violate("escaped-text-evaluated", fmt.Sprintf("escaped-evaluated:pos%d", pos),
				fmt.Sprintf("text behind an escaped delimiter was evaluated: output %s contains context data; template %s", core.Q(core.Trunc(res.Out, 200)), core.Q(t["main"])), cs, "")
			return
		}
	}
	// the literal text must be there (with or without the backslash)
	body := strings.ToUpper(esc[1:])
	if !strings.Contains(up, body) {
		rec.Violate("escaped-text-lost", fmt.Sprintf("escaped-lost:pos%d", pos),
			fmt.Sprintf("literal text behind an escaped delimiter is missing from the output %s (expected to contain %s); template %s", core.Q(core.Trunc(res.Out, 200)), core.Q(esc[1:]), core.Q(t["main"])), cs, "")
	}
}

// stray: a closing or middle tag with nothing open. Rejecting the template is fine; accepting it and dropping the literal text
// that follows is not (every byte outside the delimiters appears in the output).
func (p *c04) stray(rec *core.Recorder, r *core.Rand) {
	tags := []string{"{% endif %}", "{% endfor %}", "{% else %}", "{% elseif yes %}", "{% endblock %}", "{% endmacro %}", "{% endapply %}", "{% endverbatim %}", "{% endspaceless %}", "{%- endif -%}", "{% endif %}{% endif %}"}
	tag := tags[r.Intn(len(tags))]
	a, b := "A"+c04Segment(r)+"a", "b"+c04Segment(r)+"B"
	a, b = strings.NewReplacer("{{", "{ ", "{%", "{ ", "{#", "{ ", "\\", "/").Replace(a), strings.NewReplacer("{{", "{ ", "{%", "{ ", "{#", "{ ", "\\", "/").Replace(b)
	var src string
	switch r.Intn(4) {
	case 0:
		src = a + tag + b
	case 1:
		src = a + "{% if yes %}in{% endif %}" + tag + b
	case 2:
		src = a + "{{ v0 }}" + tag + b + "{{ v1 }}"
	default:
		src = a + tag + "{% if yes %}" + b + "{% endif %}"
	}
	rec.Eval("stray-tag", src, true)
	res := renderFresh(map[string]string{"main": src}, "main", c04Ctx(), nil)
	cs := map[string]any{"source": fmt.Sprintf("%q", core.Trunc(src, 600))}
	if res.Panicked {
		rec.Violate("panic", "panic@"+res.Site, "engine panicked: "+res.PanicVal, cs, res.Stack)
		return
	}
	if res.Err != nil {
		rec.Count("stray-tag-rejected", 1)
		return
	}
	rec.Count("stray-tag-accepted", 1)
	if !strings.Contains(res.Out, a) || !strings.Contains(res.Out, b) || strings.Index(res.Out, a) > strings.LastIndex(res.Out, b) {
		rec.Violate("exact-text", "c04-stray-tag-drops-text:"+strings.Fields(strings.Trim(tag, "{}%- "))[0],
			fmt.Sprintf("a template with the stray tag %s was accepted, but literal text around it is missing from the output %s; source %s", tag, core.Q(core.Trunc(res.Out, 200)), core.Q(core.Trunc(src, 300))), cs, "")
	}
}

func (p *c04) verbatim(rec *core.Recorder, r *core.Rand) {
	body := c04InertBodies[r.Intn(len(c04InertBodies))]
	if r.Bool() {
		body = "text " + body + " " + c04InertBodies[r.Intn(len(c04InertBodies))] + " more"
	}
	if strings.Contains(body, "endverbatim") {
		return
	}
	core04 := "A{% verbatim %}" + body + "{% endverbatim %}B"
	src := core04 + "{{ v0 }}C"
	srcs := map[string]string{}
	// the block stands at the top level, or inside a construct that binds the very names its body mentions
	switch wrap := r.Intn(7); wrap {
	case 1:
		src = "{% macro vb(secret, other) %}" + core04 + "{% endmacro %}{{ vb(secret, other) }}{{ v0 }}C"
	case 2:
		src = "{% if yes %}" + core04 + "{% endif %}{{ v0 }}C"
	case 3:
		src = "{% for secret in [secret] %}" + core04 + "{% endfor %}{{ v0 }}C"
	case 4:
		src = "{% block vbk %}" + core04 + "{% endblock %}{{ v0 }}C"
	case 5:
		srcs["vinc"] = core04
		src = "{% include 'vinc' with {'secret': secret, 'other': other} %}{{ v0 }}C"
	case 6:
		srcs["vlib"] = "{% macro vb(secret, other) %}" + core04 + "{% endmacro %}"
		src = "{% import 'vlib' as vl %}{{ vl.vb(secret, other) }}{{ v0 }}C"
	}
	rec.Eval("verbatim", src, true)
	cs := map[string]any{"source": fmt.Sprintf("%q", src)}
	var outs []string
	for k := 0; k < 3; k++ {
		spy := &c04Spy{}
		ctx := c04Ctx()
		ctx["secret"] = fmt.Sprintf("SECRET%dX", k)
		ctx["other"] = fmt.Sprintf("OTHER%dX", k)
		all := map[string]string{"main": src}
		for n, t := range srcs {
			all[n] = t
		}
		res := renderFresh(all, "main", ctx, spy.engine(nil))
		if res.Panicked {
			rec.Violate("panic", "panic@"+res.Site, "engine panicked: "+res.PanicVal, cs, res.Stack)
			return
		}
		if spy.calls > 0 {
			rec.Violate("verbatim-spy", "verbatim-evaluated", fmt.Sprintf("something inside a verbatim body was evaluated (%d spy calls); source %q", spy.calls, src), cs, "")
			return
		}
		if res.Err != nil {
			rec.Violate("verbatim-output", core.SigHash("c04-verbatim-err", src), fmt.Sprintf("a verbatim body made the render fail: %v; source %q", res.Err, src), cs, "")
			return
		}
		if strings.Contains(res.Out, "SECRET") || strings.Contains(res.Out, "OTHER") || strings.Contains(res.Out, "TICKED") {
			rec.Violate("verbatim-output", core.SigHash("c04-verbatim-leak", src), fmt.Sprintf("verbatim output contains context data: %q; source %q", core.Trunc(res.Out, 200), src), cs, "")
			return
		}
		if !strings.HasPrefix(res.Out, "A") || !strings.HasSuffix(res.Out, "BV0vC") {
			rec.Violate("verbatim-output", core.SigHash("c04-verbatim-frame", src), fmt.Sprintf("text around a verbatim block changed: %q; source %q", core.Trunc(res.Out, 200), src), cs, "")
			return
		}
		outs = append(outs, res.Out)
	}
	if outs[0] != outs[1] || outs[1] != outs[2] {
		rec.Violate("verbatim-noninterference", core.SigHash("c04-verbatim-ctx", src), fmt.Sprintf("verbatim output depends on the context: %q vs %q vs %q", outs[0], outs[1], outs[2]), cs, "")
		return
	}
	if rec.WantSample("verbatim") {
		cs["output"] = outs[0]
		rec.Sample("verbatim", cs)
	}
}
