package props

import (
	"errors"
	"fmt"
	"io"
	"os"
	"path/filepath"
	"regexp"
	"strings"
	"time"

	"github.com/semihalev/twig"

	"verifharness/internal/core"
)

// C15 — template cache and loaders always serve the source the configuration calls for.
type c15 struct{ base }

func init() {
	Register(&c15{base{
		id: "C15", level: "exploration",
		technique: "online trace checker: every engine call of a generated history is checked against an explicit cache/loader state machine that yields the set of acceptable source versions; versions carry unique markers, loaders count their reads, cache contents are fingerprinted around misses",
		rule: "case = history of 10-80 steps over 3 names x 3 loaders (in-memory timestamp-aware / plain, FileSystemLoader and CompiledLoader on a temp directory with os.Chtimes) mixing SetCache, SetAutoReload, SetDevelopmentMode, RegisterString / RegisterTemplate / RegisterCompiledTemplate, loader edits (newer / equal / older mtime, add / remove a name) and Load / Render / RenderTo. " +
			"After each call the observed version marker must be in the model's allowed set, read counters must agree (cache off: re-read every time; unchanged under auto-reload: not re-read; cache hit without auto-reload: not re-read), a miss must match ErrTemplateNotFound and leave cached names and fingerprints untouched. " +
			"Non-trivial: a history with >= 3 configuration changes or loader edits between two calls of the same name. Distinct = distinct history.",
		assumptions: []string{
			"where the statement is silent the model allows two outcomes (content changed with equal or older mtime; an earlier loader gaining a name that is cached from a later one; a cached name removed from its loader under auto-reload; plain loaders under auto-reload)",
			"registrations happen only while caching is enabled and a registered-only name is not rendered with the cache off",
			"loader mtimes are logical counters set by the harness (os.Chtimes for files), never the wall clock",
		},
		quick: 50000, thorough: 400000, minQuick: 8000, minThorough: 150000,
	}})
}

func (p *c15) Shards(string) int         { return 16 }
func (p *c15) CaseTimeoutSec(string) int { return 120 }
func (p *c15) RequiredCounters(string) []string {
	return []string{"calls-checked", "miss-checks", "not-reread-checks", "reread-checks", "autoreload-newer-checks", "fs-histories"}
}

type c15Entry struct {
	src   string
	mtime int64
}

// in-memory loaders
type c15Mem struct {
	m     map[string]c15Entry
	loads map[string]int
	// duringLoad, when set, runs once while the loader is being read (after the engine has looked into its cache): what
	// another caller does in the meantime
	duringLoad func()
}

func (l *c15Mem) Load(name string) (string, error) {
	e, ok := l.m[name]
	if !ok {
		return "", fmt.Errorf("%w: %s", twig.ErrTemplateNotFound, name)
	}
	l.loads[name]++
	if f := l.duringLoad; f != nil {
		l.duringLoad = nil
		f()
	}
	return e.src, nil
}
func (l *c15Mem) Exists(name string) bool { _, ok := l.m[name]; return ok }

type c15TsMem struct{ c15Mem }

func (l *c15TsMem) GetModifiedTime(name string) (int64, error) {
	e, ok := l.m[name]
	if !ok {
		return 0, fmt.Errorf("%w: %s", twig.ErrTemplateNotFound, name)
	}
	return e.mtime, nil
}

// file-backed loader wrapper (counts reads; the real loader does the work)
type c15FS struct {
	inner interface {
		twig.Loader
		GetModifiedTime(string) (int64, error)
	}
	loads map[string]int
}

func (l *c15FS) Load(name string) (string, error) {
	s, err := l.inner.Load(name)
	if err == nil {
		l.loads[name]++
	}
	return s, err
}
func (l *c15FS) Exists(name string) bool                 { return l.inner.Exists(name) }
func (l *c15FS) GetModifiedTime(n string) (int64, error) { return l.inner.GetModifiedTime(n) }

// model of one loader
type c15ModelLoader struct {
	kind    string // tsmem | mem | fs | compiled
	ts      bool
	content map[string]c15Entry
	// engine-side objects
	mem   *c15Mem
	fs    *c15FS
	dir   string
	loads func(name string) int
}

type c15Cached struct {
	version string
	loader  int // -1 registered
	mtime   int64
}

var reC15Marker = regexp.MustCompile(`⟦([a-z]+)#(\d+)@(\w+)⟧`)

func c15Src(name string, ver int, where string, names []string) string {
	s := fmt.Sprintf("⟦%s#%d@%s⟧", name, ver, where)
	return s
}

// meanwhile: a registration that completes while Load is reading the loaders (first load of a name, or reload of a stale
// entry) is the most recent registration: it is what the name serves from then on, and the Load in flight returns either
// what it read or the registration.
func (p *c15) meanwhile(rec *core.Recorder, r *core.Rand) {
	stale := r.Bool()
	l := &c15TsMem{c15Mem{m: map[string]c15Entry{"aa": {"⟦aa#1@L0⟧", 10}}, loads: map[string]int{}}}
	e := twig.New()
	e.RegisterLoader(l)
	auto := r.Bool() || stale
	e.SetAutoReload(auto)
	trace := fmt.Sprintf("stale=%v", stale)
	if stale {
		if out, err := e.Render("aa", nil); err != nil || out != "⟦aa#1@L0⟧" {
			rec.Violate("cache-model", "meanwhile-first-render", fmt.Sprintf("first render gave %q %v", out, err), map[string]any{"trace": trace}, "")
			return
		}
		l.m["aa"] = c15Entry{"⟦aa#2@L0⟧", 20}
	}
	cur := l.m["aa"].src
	kind := r.Intn(4)
	if kind == 3 && !auto {
		kind = r.Intn(3)
	}
	if kind == 3 {
		// the template changes in the loader (newer modification time) while the engine is reading it: with auto-reload on the
		// next call sees that version, whichever of the two the read in flight got
		l.duringLoad = func() { l.m["aa"] = c15Entry{"⟦aa#7@L0⟧", 30} }
		rec.Eval("meanwhile", fmt.Sprintf("%v/changed-during-read", stale), true)
		rec.Count("changes-during-a-load", 1)
		out1, err1 := e.Render("aa", nil)
		out2, err2 := e.Render("aa", nil)
		cs := map[string]any{"trace": fmt.Sprintf("%s; auto-reload on; the loader's copy changed (mtime 30) during the read; render in flight gave %q, next render %q", trace, out1, out2)}
		if err1 != nil || (out1 != cur && out1 != "⟦aa#7@L0⟧") {
			rec.Violate("cache-model", "changed-during-read-inflight", fmt.Sprintf("the render during which the template changed gave %q (err=%v), want %q or the new version", out1, err1, cur), cs, "")
			return
		}
		if err2 != nil || out2 != "⟦aa#7@L0⟧" {
			rec.Violate("cache-model", "change-during-read-never-seen",
				fmt.Sprintf("a template changed in a timestamp-aware loader while the engine was reading it; with auto-reload on the next call still serves %q (err=%v) instead of the changed version", out2, err2), cs, "")
		}
		return
	}
	l.duringLoad = func() {
		switch kind {
		case 0:
			e.RegisterString("aa", "⟦aa#9@REG⟧")
		case 1:
			if t, err := e.ParseTemplate("⟦aa#9@REG⟧"); err == nil {
				e.RegisterTemplate("aa", t)
			}
		default:
			e.RegisterCompiledTemplate(&twig.CompiledTemplate{Name: "aa", Source: "⟦aa#9@REG⟧", LastModified: 5})
		}
	}
	rec.Eval("meanwhile", fmt.Sprintf("%v/%d/%v", stale, kind, e != nil), true)
	rec.Count("registrations-during-a-load", 1)
	out1, err1 := e.Render("aa", nil)
	out2, err2 := e.Render("aa", nil)
	cs := map[string]any{"trace": fmt.Sprintf("%s; registration kind %d during the load; render in flight gave %q, next render %q", trace, kind, out1, out2)}
	if err1 != nil || (out1 != cur && out1 != "⟦aa#9@REG⟧") {
		rec.Violate("cache-model", "meanwhile-inflight", fmt.Sprintf("the render whose load was overtaken by a registration gave %q (err=%v), want %q or the registered text", out1, err1, cur), cs, "")
		return
	}
	if err2 != nil || out2 != "⟦aa#9@REG⟧" {
		rec.Violate("cache-model", fmt.Sprintf("registration-lost-to-load-in-flight:stale=%v", stale),
			fmt.Sprintf("a registration completed while a load of the same name was reading the loaders; afterwards the name serves %q (err=%v) instead of the registered text", out2, err2), cs, "")
	}
}

// relative: an include written "./x" or "../x" that only exists under the name as written. Finding it that way is a lookup
// like any other: the name tried first (resolved against the including template's directory) stays unknown to the cache
// and to Load, and the included template follows the most recent registration / the loader's newer version.
func (p *c15) relative(rec *core.Recorder, r *core.Rand) {
	written := []string{"./part", "../part", "./sub/part"}[r.Intn(3)]
	mainName := []string{"pages/main", "a/b/main", "pages/deep/er/main"}[r.Intn(3)]
	resolved := map[string]string{"./part": "/part", "../part": "/part", "./sub/part": "/sub/part"}[written]
	dir := mainName[:strings.LastIndex(mainName, "/")]
	if written == "../part" {
		dir = dir[:strings.LastIndex(dir+"/", "/")]
		if i := strings.LastIndex(dir, "/"); i >= 0 {
			dir = dir[:i]
		} else {
			dir = ""
		}
	}
	resolvedName := strings.TrimPrefix(dir+resolved, "/")
	viaLoader := r.Bool()
	cacheOn := r.P(3, 4) || !viaLoader // (with the cache off only loaders serve templates)
	l := &c15TsMem{c15Mem{m: map[string]c15Entry{}, loads: map[string]int{}}}
	e := twig.New()
	e.RegisterLoader(l)
	e.SetCache(cacheOn)
	e.SetAutoReload(viaLoader)
	mainSrc := "M[{% include '" + written + "' %}|{% for i in [1, 2] %}{% include '" + written + "' %}{% endfor %}]"
	put := func(name, src string, mtime int64) {
		if viaLoader {
			l.m[name] = c15Entry{src, mtime}
		} else {
			e.RegisterString(name, src)
		}
	}
	put(mainName, mainSrc, 10)
	put(written, "⟦part#1@W⟧", 10)
	trace := fmt.Sprintf("main %q includes %q (exists only as written; resolved name %q); viaLoader=%v cache=%v", mainName, written, resolvedName, viaLoader, cacheOn)
	rec.Eval("relative", trace, true)
	rec.Count("relative-include-histories", 1)
	cs := map[string]any{"trace": trace}
	want := func(v string) string { return "M[" + v + "|" + v + v + "]" }
	out1, err1 := e.Render(mainName, nil)
	if err1 != nil || out1 != want("⟦part#1@W⟧") {
		rec.Violate("cache-model", "relative-first-render", fmt.Sprintf("first render gave %q (err=%v), want %q", out1, err1, want("⟦part#1@W⟧")), cs, "")
		return
	}
	for _, n := range e.VerifCachedNames() {
		if n != mainName && n != written {
			rec.Violate("cache-model", "relative-miss-cached", fmt.Sprintf("after the render the cache holds %q, a name no loader has and nobody registered (names: %v)", n, e.VerifCachedNames()), cs, "")
			return
		}
	}
	if _, err := e.Load(resolvedName); err == nil || !errors.Is(err, twig.ErrTemplateNotFound) {
		rec.Violate("cache-model", "relative-miss-loadable", fmt.Sprintf("Load(%q) - a name no loader has - gave err=%v after an include fell back from it to %q", resolvedName, err, written), cs, "")
		return
	}
	put(written, "⟦part#2@W⟧", 20)
	out2, err2 := e.Render(mainName, nil)
	if err2 != nil || out2 != want("⟦part#2@W⟧") {
		rec.Violate("cache-model", "relative-stale", fmt.Sprintf("after %q was %s, the including template renders %q (err=%v), want %q", written, map[bool]string{true: "changed in the loader (newer mtime, auto-reload on)", false: "registered again"}[viaLoader], out2, err2, want("⟦part#2@W⟧")), cs, "")
		return
	}
	rec.Count("calls-checked", 3)
}

// c15Flaky has every name of its inner loader but fails to read while broken is set.
type c15Flaky struct {
	inner  *c15TsMem
	broken bool
}

func (l *c15Flaky) Load(name string) (string, error) {
	if l.broken && l.inner.Exists(name) {
		return "", fmt.Errorf("verif: i/o error reading %s: %w", name, errSentinel)
	}
	return l.inner.Load(name)
}
func (l *c15Flaky) Exists(name string) bool { return l.inner.Exists(name) }

// chained: "the first that has the name wins" holds inside a ChainLoader too. Its first member has the name but cannot read
// it for a while; a later member (of the chain, or a later loader of the engine) has a template of the same name. The
// lookup fails with the member's error - nothing is served, nothing is cached - and once the member works again its
// template is what the name serves.
func (p *c15) chained(rec *core.Recorder, r *core.Rand) {
	first := &c15Flaky{inner: &c15TsMem{c15Mem{m: map[string]c15Entry{"aa": {"⟦aa#1@FIRST⟧", 10}}, loads: map[string]int{}}}, broken: true}
	second := &c15TsMem{c15Mem{m: map[string]c15Entry{"aa": {"⟦aa#2@SECOND⟧", 10}, "bb": {"⟦bb#3@SECOND⟧", 10}}, loads: map[string]int{}}}
	e := twig.New()
	shape := r.Intn(3)
	switch shape {
	case 0:
		e.RegisterLoader(twig.NewChainLoader([]twig.Loader{first, second}))
	case 1:
		e.RegisterLoader(twig.NewChainLoader([]twig.Loader{twig.NewArrayLoader(map[string]string{"zz": "z"}), first, second}))
	default:
		e.RegisterLoader(twig.NewChainLoader([]twig.Loader{first}))
		e.RegisterLoader(second)
	}
	auto := r.Bool()
	e.SetAutoReload(auto)
	trace := fmt.Sprintf("shape %d (0: chain[first, second]; 1: chain[other, first, second]; 2: chain[first] then second); autoReload=%v", shape, auto)
	rec.Eval("chained", trace, true)
	rec.Count("chain-loader-histories", 1)
	cs := map[string]any{"trace": trace}
	out, err := e.Render("aa", nil)
	if err == nil || errors.Is(err, twig.ErrTemplateNotFound) || !errors.Is(err, errSentinel) {
		rec.Violate("cache-model", "chain-member-failure-covered-up", fmt.Sprintf("the first loader that has 'aa' failed to read it; Render gave %q err=%v (want the loader's error, not a later loader's template and not 'not found')", out, err), cs, "")
		return
	}
	if names := e.VerifCachedNames(); len(names) != 0 {
		rec.Violate("cache-model", "chain-member-failure-cached", fmt.Sprintf("after the failed lookup the cache holds %v", names), cs, "")
		return
	}
	if out, err := e.Render("bb", nil); err != nil || out != "⟦bb#3@SECOND⟧" {
		rec.Violate("cache-model", "chain-other-name", fmt.Sprintf("a name only the later loader has gave %q err=%v", out, err), cs, "")
		return
	}
	first.broken = false
	if out, err := e.Render("aa", nil); err != nil || out != "⟦aa#1@FIRST⟧" {
		rec.Violate("cache-model", "chain-first-member-wins", fmt.Sprintf("with the first member working again 'aa' serves %q (err=%v), want the first member's template", out, err), cs, "")
		return
	}
	rec.Count("calls-checked", 3)
}

// searchPaths: one file-system loader over two directories. The first directory that has a template wins at every lookup,
// also when the template appeared there after the loader had already served the name from the second directory, and the
// loader's suffix is the one set at the time of the lookup. What a new loader over the same directories serves is the model.
func (p *c15) searchPaths(rec *core.Recorder, r *core.Rand) {
	tmp, err := os.MkdirTemp("", "verif-c15-")
	if err != nil {
		rec.HarnessFault("mkdtemp: %v", err)
		return
	}
	defer os.RemoveAll(tmp)
	dirA, dirB := filepath.Join(tmp, "a"), filepath.Join(tmp, "b")
	os.MkdirAll(dirA, 0o755)
	os.MkdirAll(dirB, 0o755)
	write := func(path, src string, mtime int64) {
		os.WriteFile(path, []byte(src), 0o644)
		os.Chtimes(path, time.Unix(mtime, 0), time.Unix(mtime, 0))
	}
	l := twig.NewFileSystemLoader([]string{dirA, dirB})
	e := twig.New()
	e.RegisterLoader(l)
	mode := r.Intn(3) // 0: cache off; 1: auto-reload on; 2: cache off, suffix change
	if mode == 1 {
		e.SetAutoReload(true)
	} else {
		e.SetCache(false)
	}
	trace := fmt.Sprintf("FileSystemLoader([a, b]); mode %d (0 cache off, 1 auto-reload, 2 cache off + SetSuffix)", mode)
	rec.Eval("search-paths", trace, true)
	rec.Count("search-path-histories", 1)
	cs := map[string]any{"trace": trace}
	fresh := func(suffix string) string {
		fl := twig.NewFileSystemLoader([]string{dirA, dirB})
		if suffix != "" {
			fl.SetSuffix(suffix)
		}
		fe := twig.New()
		fe.RegisterLoader(fl)
		out, err := fe.Render("aa", nil)
		if err != nil {
			return "ERR"
		}
		return out
	}
	write(filepath.Join(dirB, "aa.twig"), "⟦aa#1@B⟧", 1_700_000_010)
	if out, err := e.Render("aa", nil); err != nil || out != "⟦aa#1@B⟧" {
		rec.Violate("cache-model", "search-paths-first", fmt.Sprintf("first render gave %q err=%v", out, err), cs, "")
		return
	}
	if mode == 2 {
		write(filepath.Join(dirB, "aa.html"), "⟦aa#2@HTML⟧", 1_700_000_020)
		l.SetSuffix(".html")
		want := fresh(".html")
		if out, err := e.Render("aa", nil); err != nil || out != want {
			rec.Violate("cache-model", "suffix-change-ignored", fmt.Sprintf("after SetSuffix(\".html\") with the cache off the loader serves %q (err=%v); a new loader with that suffix serves %q", out, err, want), cs, "")
		}
		return
	}
	write(filepath.Join(dirA, "aa.twig"), "⟦aa#3@A⟧", 1_700_000_030)
	want := fresh("")
	if out, err := e.Render("aa", nil); err != nil || out != want {
		rec.Violate("cache-model", "earlier-search-path-ignored", fmt.Sprintf("'aa' appeared in the first search path (newer) after it had been served from the second; the next call serves %q (err=%v), a new loader over the same directories serves %q", out, err, want), cs, "")
		return
	}
	rec.Count("calls-checked", 2)
}

// aliased: the template object of a loaded name is registered under a second name as well (on the same engine or on
// another one). The first name goes on following its loader: a newer version there is visible to the next call.
func (p *c15) aliased(rec *core.Recorder, r *core.Rand) {
	l := &c15TsMem{c15Mem{m: map[string]c15Entry{"aa": {"⟦aa#1@L0⟧", 10}}, loads: map[string]int{}}}
	e := twig.New()
	e.RegisterLoader(l)
	e.SetAutoReload(true)
	other := twig.New()
	where := r.Intn(3)
	trace := fmt.Sprintf("Load(aa); RegisterTemplate(alias, that template) on %s; aa changes in the loader (newer); Render(aa)", []string{"the same engine", "another engine", "both"}[where])
	rec.Eval("aliased", trace, true)
	rec.Count("alias-registration-histories", 1)
	cs := map[string]any{"trace": trace}
	t, err := e.Load("aa")
	if err != nil {
		rec.Violate("cache-model", "aliased-load", fmt.Sprintf("Load(aa) failed: %v", err), cs, "")
		return
	}
	if where != 1 {
		e.RegisterTemplate("alias", t)
	}
	if where != 0 {
		other.RegisterTemplate("alias", t)
	}
	l.m["aa"] = c15Entry{"⟦aa#2@L0⟧", 20}
	if out, err := e.Render("aa", nil); err != nil || out != "⟦aa#2@L0⟧" {
		rec.Violate("cache-model", "alias-registration-stops-auto-reload",
			fmt.Sprintf("after the template of 'aa' was also registered under another name, a newer version of 'aa' in its timestamp-aware loader (auto-reload on) is not served: Render(aa) gave %q (err=%v), want the new version", out, err), cs, "")
		return
	}
	rec.Count("calls-checked", 2)
}

func (p *c15) Run(rec *core.Recorder, seed uint64, idx int, tier string) {
	twig.SetDebugWriter(io.Discard)
	if idx%25 == 23 {
		p.aliased(rec, core.NewRand("C15a", seed, idx))
		return
	}
	if idx%25 == 21 {
		p.searchPaths(rec, core.NewRand("C15s", seed, idx))
		return
	}
	if idx%25 == 19 {
		p.chained(rec, core.NewRand("C15c", seed, idx))
		return
	}
	if idx%25 == 7 {
		p.meanwhile(rec, core.NewRand("C15m", seed, idx))
		return
	}
	if idx%25 == 13 {
		p.relative(rec, core.NewRand("C15r", seed, idx))
		return
	}
	r := core.NewRand("C15", seed, idx)
	names := []string{"aa", "bb", "cc"}
	useFS := idx%3 == 2
	var tmp string
	if useFS {
		d, err := os.MkdirTemp("", "verif-c15-")
		if err != nil {
			rec.HarnessFault("mkdtemp: %v", err)
			return
		}
		tmp = d
		defer os.RemoveAll(tmp)
		rec.Count("fs-histories", 1)
	} else if idx%3 == 0 {
		rec.Count("fs-histories", 0)
	}
	e := twig.New()
	nLoaders := r.Range(1, 3)
	loaders := make([]*c15ModelLoader, nLoaders)
	verCounter := 0
	clock := int64(1_700_000_000)
	for i := range loaders {
		ml := &c15ModelLoader{content: map[string]c15Entry{}}
		kinds := []string{"tsmem", "tsmem", "mem"}
		if useFS {
			kinds = []string{"fs", "compiled", "tsmem"}
		}
		ml.kind = kinds[r.Intn(len(kinds))]
		switch ml.kind {
		case "tsmem":
			t := &c15TsMem{c15Mem{m: map[string]c15Entry{}, loads: map[string]int{}}}
			ml.mem, ml.ts = &t.c15Mem, true
			e.RegisterLoader(t)
			ml.loads = func(n string) int { return t.loads[n] }
		case "mem":
			t := &c15Mem{m: map[string]c15Entry{}, loads: map[string]int{}}
			ml.mem = t
			e.RegisterLoader(t)
			ml.loads = func(n string) int { return t.loads[n] }
		case "fs":
			ml.dir = filepath.Join(tmp, fmt.Sprintf("l%d", i))
			os.MkdirAll(ml.dir, 0o755)
			w := &c15FS{inner: twig.NewFileSystemLoader([]string{ml.dir}), loads: map[string]int{}}
			ml.fs, ml.ts = w, true
			e.RegisterLoader(w)
			ml.loads = func(n string) int { return w.loads[n] }
		case "compiled":
			ml.dir = filepath.Join(tmp, fmt.Sprintf("c%d", i))
			os.MkdirAll(ml.dir, 0o755)
			w := &c15FS{inner: twig.NewCompiledLoader(ml.dir), loads: map[string]int{}}
			ml.fs, ml.ts = w, true
			e.RegisterLoader(w)
			ml.loads = func(n string) int { return w.loads[n] }
		}
		loaders[i] = ml
	}
	setContent := func(li int, name string, ent *c15Entry) error {
		ml := loaders[li]
		if ent == nil {
			delete(ml.content, name)
		} else {
			ml.content[name] = *ent
		}
		switch ml.kind {
		case "tsmem", "mem":
			if ent == nil {
				delete(ml.mem.m, name)
			} else {
				ml.mem.m[name] = *ent
			}
		case "fs":
			path := filepath.Join(ml.dir, name+".twig")
			if ent == nil {
				return os.Remove(path)
			}
			if err := os.WriteFile(path, []byte(ent.src), 0o644); err != nil {
				return err
			}
			return os.Chtimes(path, time.Unix(ent.mtime, 0), time.Unix(ent.mtime, 0))
		case "compiled":
			path := filepath.Join(ml.dir, name+".twig.compiled")
			if ent == nil {
				return os.Remove(path)
			}
			b, err := twig.SerializeCompiledTemplate(&twig.CompiledTemplate{Name: name, Source: ent.src, LastModified: ent.mtime, CompileTime: ent.mtime})
			if err != nil {
				return err
			}
			if err := os.WriteFile(path, b, 0o644); err != nil {
				return err
			}
			return os.Chtimes(path, time.Unix(ent.mtime, 0), time.Unix(ent.mtime, 0))
		}
		return nil
	}
	newVer := func(name, where string) string {
		verCounter++
		return c15Src(name, verCounter, where, names)
	}
	// initial content
	for li := range loaders {
		for _, n := range names {
			if r.P(2, 3) {
				clock += int64(r.Range(1, 5))
				if err := setContent(li, n, &c15Entry{newVer(n, fmt.Sprintf("L%d", li)), clock}); err != nil {
					rec.HarnessFault("setContent: %v", err)
					return
				}
			}
		}
	}
	// model state
	cacheOn, autoReload := true, false
	cached := map[string]*c15Cached{}
	firstWith := func(name string) int {
		for li, ml := range loaders {
			if _, ok := ml.content[name]; ok {
				return li
			}
		}
		return -1
	}
	var trace []string
	step := func(s string) { trace = append(trace, s) }
	caseInfo := func() map[string]any {
		t := trace
		if len(t) > 60 {
			t = t[len(t)-60:]
		}
		kinds := []string{}
		for _, ml := range loaders {
			kinds = append(kinds, ml.kind)
		}
		return map[string]any{"trace": t, "loaders": kinds}
	}
	fingerprints := func() map[string]string {
		m := map[string]string{}
		for _, n := range e.VerifCachedNames() {
			m[n] = twig.VerifFingerprint(e.VerifCached(n)) + "|" + twig.VerifTemplateSource(e.VerifCached(n))
		}
		return m
	}
	changes := 0
	maxChangesBetween := 0
	sinceCall := map[string]int{}

	call := func(kind, name string) bool {
		// ---- model: allowed set
		type outcome struct {
			version string // "" = not found
			loader  int
		}
		var allowed []outcome
		mustNotReread := -1 // loader index whose read count must stay
		mustReread := -1
		newerCheck := false
		ent := cached[name]
		fw := firstWith(name)
		addLoader := func(li int) {
			if li >= 0 {
				allowed = append(allowed, outcome{loaders[li].content[name].src, li})
			} else {
				allowed = append(allowed, outcome{"", -1})
			}
		}
		switch {
		case !cacheOn:
			addLoader(fw)
			mustReread = fw
		case ent == nil:
			addLoader(fw)
		case !autoReload:
			allowed = append(allowed, outcome{ent.version, ent.loader})
			if ent.loader >= 0 {
				mustNotReread = ent.loader
			}
		case ent.loader < 0:
			allowed = append(allowed, outcome{ent.version, -1})
		default:
			ml := loaders[ent.loader]
			cur, has := ml.content[name]
			switch {
			case !ml.ts:
				allowed = append(allowed, outcome{ent.version, ent.loader})
				addLoader(fw)
			case !has:
				// the template is gone from the timestamp-aware loader it was cached from: that is a change of the template,
				// so the next call sees the loaders as they are now (another loader's copy, or not found)
				addLoader(fw)
				rec.Count("autoreload-removed-checks", 1)
			case cur.mtime > ent.mtime:
				// must see a current loader version, never the stale cached one
				// ... and the reload consults the loaders in registration order: the first that has the name wins, even when
				// the cached copy came from a later loader
				addLoader(fw)
				newerCheck = true
			case cur.src == ent.version:
				allowed = append(allowed, outcome{ent.version, ent.loader})
				mustNotReread = ent.loader
			default: // content changed, mtime equal or older: silent
				allowed = append(allowed, outcome{ent.version, ent.loader})
				allowed = append(allowed, outcome{cur.src, ent.loader})
				addLoader(fw)
			}
		}
		readsBefore := make([]int, len(loaders))
		for li, ml := range loaders {
			readsBefore[li] = ml.loads(name)
		}
		var fpBefore map[string]string
		expectMiss := len(allowed) == 1 && allowed[0].version == ""
		if expectMiss {
			fpBefore = fingerprints()
		}
		// ---- engine call
		var out string
		var err error
		panicked, site, val, stack := core.Guard(func() {
			switch kind {
			case "load":
				var t *twig.Template
				t, err = e.Load(name)
				if err == nil {
					out = twig.VerifTemplateSource(t)
				}
			case "renderTo":
				var sb strings.Builder
				err = e.RenderTo(&sb, name, nil)
				out = sb.String()
			default:
				out, err = e.Render(name, nil)
			}
		})
		step(fmt.Sprintf("%s(%s) -> %q err=%v   [cache=%v autoReload=%v]", kind, name, out, err != nil, cacheOn, autoReload))
		rec.Count("calls-checked", 1)
		if panicked {
			rec.Violate("panic", "panic@"+site, "engine panicked: "+val, caseInfo(), stack)
			return false
		}
		got := ""
		if err == nil {
			m := reC15Marker.FindString(out)
			if m == "" || m != out {
				rec.Violate("cache-model", "garbled-output", fmt.Sprintf("%s(%s) returned %q, not a version marker", kind, name, out), caseInfo(), "")
				return false
			}
			got = m
		}
		matched := -2
		for i, o := range allowed {
			if o.version == got {
				matched = i
				break
			}
		}
		if matched == -2 {
			var al []string
			for _, o := range allowed {
				if o.version == "" {
					al = append(al, "<not found>")
				} else {
					al = append(al, o.version)
				}
			}
			g := got
			if g == "" {
				g = fmt.Sprintf("<error: %v>", err)
			}
			rec.Violate("cache-model", fmt.Sprintf("wrong-version:cache=%v:autoReload=%v:%s", cacheOn, autoReload, kind),
				fmt.Sprintf("%s(%s) served %s; the configuration (cache=%v, autoReload=%v) calls for one of %v", kind, name, g, cacheOn, autoReload, al), caseInfo(), "")
			return false
		}
		if newerCheck {
			rec.Count("autoreload-newer-checks", 1)
		}
		o := allowed[matched]
		if got == "" {
			rec.Count("miss-checks", 1)
			if !errors.Is(err, twig.ErrTemplateNotFound) {
				rec.Violate("cache-model", "miss-not-ErrTemplateNotFound", fmt.Sprintf("%s(%s): no loader has the name, but the error does not match ErrTemplateNotFound: %v", kind, name, err), caseInfo(), "")
				return false
			}
			if expectMiss {
				fpAfter := fingerprints()
				if fmt.Sprint(fpBefore) != fmt.Sprint(fpAfter) {
					rec.Violate("cache-model", "miss-changed-cache", fmt.Sprintf("a failed lookup of %q changed the cache: before %v after %v", name, sortedKeys(fpBefore), sortedKeys(fpAfter)), caseInfo(), "")
					return false
				}
			}
			return true
		}
		// read counters
		if mustNotReread >= 0 && o.loader == mustNotReread && o.version == ent.version {
			rec.Count("not-reread-checks", 1)
			if loaders[mustNotReread].loads(name) != readsBefore[mustNotReread] {
				rec.Violate("cache-model", fmt.Sprintf("needless-reread:autoReload=%v", autoReload), fmt.Sprintf("%s(%s): the cached, unchanged template was read from its loader again (%d -> %d reads) with cache=%v autoReload=%v", kind, name, readsBefore[mustNotReread], loaders[mustNotReread].loads(name), cacheOn, autoReload), caseInfo(), "")
				return false
			}
		}
		if mustReread >= 0 {
			rec.Count("reread-checks", 1)
			if loaders[mustReread].loads(name) <= readsBefore[mustReread] {
				rec.Violate("cache-model", "no-reread-with-cache-off", fmt.Sprintf("%s(%s) with caching disabled did not read the loader", kind, name), caseInfo(), "")
				return false
			}
		}
		// follow the engine's (allowed) choice
		if cacheOn {
			if newerCheck && ent != nil && got == ent.version && o.loader == ent.loader {
				// the loader's copy was newer but has the same content: the engine has reloaded it,
				// so from now on it is unchanged until its mtime moves again
				ent.mtime = loaders[o.loader].content[name].mtime
			}
			if ent == nil || got != ent.version {
				c := &c15Cached{version: got, loader: o.loader}
				if o.loader >= 0 {
					c.mtime = loaders[o.loader].content[name].mtime
				}
				cached[name] = c
			}
		}
		return true
	}

	nSteps := r.Range(10, 80)
	for s := 0; s < nSteps; s++ {
		name := names[r.Intn(len(names))]
		switch k := r.Intn(30); {
		case k < 11:
			kind := []string{"render", "render", "load", "renderTo"}[r.Intn(4)]
			if !cacheOn && cached[name] != nil && cached[name].loader < 0 && firstWith(name) < 0 {
				continue // registered-only name with the cache off: excluded
			}
			if sinceCall[name] > maxChangesBetween {
				maxChangesBetween = sinceCall[name]
			}
			sinceCall[name] = 0
			if !call(kind, name) {
				return
			}
			continue
		case k < 13:
			cacheOn = r.Bool()
			e.SetCache(cacheOn)
			step(fmt.Sprintf("SetCache(%v)", cacheOn))
		case k < 15:
			autoReload = r.Bool()
			e.SetAutoReload(autoReload)
			step(fmt.Sprintf("SetAutoReload(%v)", autoReload))
		case k < 16:
			dev := r.Bool()
			e.SetDevelopmentMode(dev)
			autoReload, cacheOn = dev, !dev
			step(fmt.Sprintf("SetDevelopmentMode(%v)", dev))
		case k < 19:
			if !cacheOn {
				continue
			}
			src := newVer(name, "REG")
			if ent := cached[name]; ent != nil && r.P(1, 4) {
				// register the very text that is cached already: still a registration, the name now belongs to no loader
				src = ent.version
			}
			var err error
			switch r.Intn(4) {
			case 3:
				// a template that another engine loaded from its own timestamp-aware loader under another name, registered here
				// as a pre-built template: it is the source registered under this name, whatever auto-reload says
				hubLoader := &c15TsMem{c15Mem{m: map[string]c15Entry{"hub_source": {src, clock - 50}}, loads: map[string]int{}}}
				hub := twig.New()
				hub.RegisterLoader(hubLoader)
				var t *twig.Template
				t, err = hub.Load("hub_source")
				if err == nil {
					e.RegisterTemplate(name, t)
				}
				rec.Count("loaded-templates-registered-under-another-name", 1)
				step("RegisterTemplate(" + name + ", template loaded elsewhere as hub_source: " + src + ")")
			case 0:
				err = e.RegisterString(name, src)
				step("RegisterString(" + name + ", " + src + ")")
			case 1:
				var t *twig.Template
				t, err = e.ParseTemplate(src)
				if err == nil {
					e.RegisterTemplate(name, t)
				}
				step("RegisterTemplate(" + name + ", " + src + ")")
			default:
				err = e.RegisterCompiledTemplate(&twig.CompiledTemplate{Name: name, Source: src, LastModified: clock})
				step("RegisterCompiledTemplate(" + name + ", " + src + ")")
			}
			if err != nil {
				rec.Violate("cache-model", "register-failed", fmt.Sprintf("registration failed: %v", err), caseInfo(), "")
				return
			}
			cached[name] = &c15Cached{version: src, loader: -1}
		case k < 27:
			li := r.Intn(len(loaders))
			cur, has := loaders[li].content[name]
			mt := cur.mtime
			how := "new"
			switch {
			case !has:
				clock += int64(r.Range(1, 5))
				mt = clock
			case r.P(3, 5):
				clock += int64(r.Range(1, 5))
				if clock <= mt {
					clock = mt + 1
				}
				mt = clock
				how = "newer"
			case r.Bool():
				how = "equal-mtime"
			default:
				mt = mt - int64(r.Range(1, 3))
				how = "older-mtime"
			}
			src := newVer(name, fmt.Sprintf("L%d", li))
			if has && how == "equal-mtime" && r.Bool() {
				src = cur.src // rewrite without change
				how = "unchanged"
			}
			if has && how == "newer" && r.P(1, 3) {
				src = cur.src // touch: newer mtime, same content
				how = "touched (newer mtime, same content)"
			}
			if err := setContent(li, name, &c15Entry{src, mt}); err != nil {
				rec.HarnessFault("setContent: %v", err)
				return
			}
			step(fmt.Sprintf("loader%d[%s] = %s mtime %s", li, name, src, how))
		default:
			li := r.Intn(len(loaders))
			if _, has := loaders[li].content[name]; has {
				if err := setContent(li, name, nil); err != nil {
					rec.HarnessFault("remove: %v", err)
					return
				}
				step(fmt.Sprintf("loader%d removes %s", li, name))
			}
		}
		changes++
		for _, n := range names {
			sinceCall[n]++
		}
	}
	rec.Eval("history", strings.Join(trace, "\n"), maxChangesBetween >= 3)
	rec.Count("steps", len(trace))
	if rec.WantSample("history") {
		rec.Sample("history", caseInfo())
	}
}
