package mt

import (
	"errors"
	"fmt"
	"math/big"
	"regexp"
	"sort"
	"strconv"
	"strings"
	"unicode/utf8"
)

// ErrUndefinedBehaviour is returned when a generator produced something the
// property statements do not define. It is a harness bug, never a verdict.
var ErrUndefinedBehaviour = errors.New("mt: construct not defined by the property statements")

// ErrMissing is the "template does not exist" failure.
type ErrMissing struct{ Name string }

func (e *ErrMissing) Error() string { return "template not found: " + e.Name }

// ErrRender is any other expected render failure (missing macro, callback failure, …).
type ErrRender struct{ Msg string }

func (e *ErrRender) Error() string { return e.Msg }

// Module is the value an import alias is bound to.
type Module struct{ macros map[string]*boundMacro }

type boundMacro struct {
	def   Macro
	table map[string]*boundMacro // macros of the defining template (siblings)
}

type loopRec struct {
	index0, length int
}

type blockPos struct {
	name  string
	level int
}

type frame struct {
	vars   map[string]Val
	parent *frame
	macros map[string]*boundMacro
	loops  []*loopRec
	defs   map[string][][]Stmt
	bstack []blockPos
}

func (f *frame) lookup(name string) (Val, bool) {
	for c := f; c != nil; c = c.parent {
		if v, ok := c.vars[name]; ok {
			return v, true
		}
	}
	return nil, false
}

// Interp is the reference interpreter.
type Interp struct {
	Set     *TmplSet
	Funcs   map[string]func(args []Val) (Val, error)
	Filters map[string]func(v Val, args []Val) (Val, error)
	Ticks   []int64
	steps   int
	depth   int
}

func NewInterp(s *TmplSet) *Interp {
	in := &Interp{Set: s, Funcs: map[string]func([]Val) (Val, error){}, Filters: map[string]func(Val, []Val) (Val, error){}}
	in.Funcs["tick"] = func(a []Val) (Val, error) {
		if len(a) != 2 {
			return nil, ErrUndefinedBehaviour
		}
		id, ok := a[0].(int64)
		if !ok {
			return nil, ErrUndefinedBehaviour
		}
		in.Ticks = append(in.Ticks, id)
		return a[1], nil
	}
	return in
}

// Render renders a template of the set with the given context.
func (in *Interp) Render(name string, ctx map[string]Val) (string, error) {
	t, ok := in.Set.T[name]
	if !ok {
		return "", &ErrMissing{name}
	}
	f := &frame{vars: map[string]Val{}, macros: map[string]*boundMacro{}}
	for k, v := range ctx {
		f.vars[k] = v
	}
	var b strings.Builder
	if err := in.renderTemplate(&b, t, f); err != nil {
		return "", err
	}
	return b.String(), nil
}

func findExtends(body []Stmt) *Extends {
	for _, s := range body {
		if e, ok := s.(Extends); ok {
			return &e
		}
	}
	return nil
}

func collectBlocks(body []Stmt, deep bool, out map[string][]Stmt, order *[]string) {
	for _, s := range body {
		switch x := s.(type) {
		case Block:
			if _, ok := out[x.Name]; !ok {
				*order = append(*order, x.Name)
			}
			out[x.Name] = x.Body
			if deep {
				collectBlocks(x.Body, deep, out, order)
			}
		case If:
			if deep {
				for _, b := range x.Bodies {
					collectBlocks(b, deep, out, order)
				}
				collectBlocks(x.Else, deep, out, order)
			}
		case For:
			if deep {
				collectBlocks(x.Body, deep, out, order)
				collectBlocks(x.Else, deep, out, order)
			}
		}
	}
}

func (in *Interp) renderTemplate(w *strings.Builder, t *Tmpl, f *frame) error {
	in.depth++
	defer func() { in.depth-- }()
	if in.depth > 64 {
		return ErrUndefinedBehaviour
	}
	ext := findExtends(t.Body)
	if ext == nil {
		return in.execBody(w, t.Body, f)
	}
	// chain leaf .. base
	chain := []*Tmpl{t}
	cur := t
	for {
		e := findExtends(cur.Body)
		if e == nil {
			break
		}
		nv, err := in.eval(e.E, f)
		if err != nil {
			return err
		}
		name, ok := nv.(string)
		if !ok {
			return ErrUndefinedBehaviour
		}
		p, ok := in.Set.T[name]
		if !ok {
			return &ErrMissing{name}
		}
		chain = append(chain, p)
		cur = p
		if len(chain) > 32 {
			return ErrUndefinedBehaviour
		}
	}
	defs := map[string][][]Stmt{}
	for i := len(chain) - 1; i >= 0; i-- {
		m := map[string][]Stmt{}
		var order []string
		collectBlocks(chain[i].Body, true, m, &order) // a block defines its name for its template wherever it is written
		for _, n := range order {
			defs[n] = append(defs[n], m[n])
		}
	}
	// what a child writes outside its blocks produces no output, but its assignments, imports and macro definitions take
	// effect (leaf first) before the layout renders, so that the blocks can use them
	var discard strings.Builder
	for i := 0; i < len(chain)-1; i++ {
		for _, s := range chain[i].Body {
			switch s.(type) {
			case Set, Import, FromImport, Macro:
				if err := in.exec(&discard, s, f); err != nil {
					return err
				}
			case If, For:
				// a condition or a loop around assignments assigns too
				if OnlyAssigns([]Stmt{s}) {
					if err := in.exec(&discard, s, f); err != nil {
						return err
					}
				}
			}
		}
	}
	saved := f.defs
	f.defs = defs
	err := in.execBody(w, chain[len(chain)-1].Body, f)
	f.defs = saved
	return err
}

func (in *Interp) execBody(w *strings.Builder, body []Stmt, f *frame) error {
	for _, s := range body {
		if err := in.exec(w, s, f); err != nil {
			return err
		}
	}
	return nil
}

// Truthy implements the statement of C09.
func Truthy(v Val) bool {
	switch x := v.(type) {
	case nil:
		return false
	case bool:
		return x
	case int64:
		return x != 0
	case string:
		return x != ""
	case []Val:
		return len(x) > 0
	case map[string]Val:
		return len(x) > 0
	}
	return true
}

// ToStr is how the reference prints a value; booleans, lists and maps are not printable.
func ToStr(v Val) (string, error) {
	switch x := v.(type) {
	case nil:
		return "", nil
	case int64:
		return strconv.FormatInt(x, 10), nil
	case string:
		return x, nil
	}
	return "", fmt.Errorf("%w: printing %T", ErrUndefinedBehaviour, v)
}

func (in *Interp) exec(w *strings.Builder, s Stmt, f *frame) error {
	in.steps++
	if in.steps > 2_000_000 {
		return ErrUndefinedBehaviour
	}
	switch x := s.(type) {
	case Text:
		w.WriteString(x.S)
	case Comment:
	case Verbatim:
		w.WriteString(x.Raw)
	case Print:
		v, err := in.eval(x.E, f)
		if err != nil {
			return err
		}
		str, err := ToStr(v)
		if err != nil {
			return err
		}
		w.WriteString(str)
	case Do:
		_, err := in.eval(x.E, f)
		return err
	case If:
		for i, c := range x.Conds {
			v, err := in.eval(c, f)
			if err != nil {
				return err
			}
			if Truthy(v) {
				return in.execBody(w, x.Bodies[i], f)
			}
		}
		if x.HasElse {
			return in.execBody(w, x.Else, f)
		}
	case For:
		sv, err := in.eval(x.Seq, f)
		if err != nil {
			return err
		}
		var items []Val
		switch q := sv.(type) {
		case []Val:
			items = q
		case string:
			if !utf8.ValidString(q) {
				return ErrUndefinedBehaviour
			}
			for _, r := range q {
				items = append(items, string(r))
			}
		case nil:
			items = nil
		default:
			return fmt.Errorf("%w: for over %T", ErrUndefinedBehaviour, sv)
		}
		if len(items) == 0 {
			if x.HasElse {
				return in.execBody(w, x.Else, f)
			}
			return nil
		}
		rec := &loopRec{length: len(items)}
		f.loops = append(f.loops, rec)
		for i, it := range items {
			rec.index0 = i
			f.vars[x.Val] = it
			if x.Key != "" {
				f.vars[x.Key] = int64(i)
			}
			if err := in.execBody(w, x.Body, f); err != nil {
				f.loops = f.loops[:len(f.loops)-1]
				return err
			}
		}
		f.loops = f.loops[:len(f.loops)-1]
	case Set:
		v, err := in.eval(x.E, f)
		if err != nil {
			return err
		}
		f.vars[x.Name] = v
	case Block:
		defs := f.defs[x.Name]
		if len(defs) == 0 {
			// not in an inheritance render: the block renders its own body
			f.bstack = append(f.bstack, blockPos{x.Name, 0})
			saved := f.defs
			if f.defs == nil {
				f.defs = map[string][][]Stmt{}
			}
			f.defs[x.Name] = [][]Stmt{x.Body}
			err := in.execBody(w, x.Body, f)
			delete(f.defs, x.Name)
			f.defs = saved
			f.bstack = f.bstack[:len(f.bstack)-1]
			return err
		}
		lvl := len(defs) - 1
		f.bstack = append(f.bstack, blockPos{x.Name, lvl})
		err := in.execBody(w, defs[lvl], f)
		f.bstack = f.bstack[:len(f.bstack)-1]
		return err
	case Extends:
		// handled by renderTemplate
	case Include:
		nv, err := in.eval(x.E, f)
		if err != nil {
			return err
		}
		name, ok := nv.(string)
		if !ok {
			return ErrUndefinedBehaviour
		}
		t, ok := in.Set.T[name]
		if !ok {
			if x.IgnoreMissing {
				return nil
			}
			return &ErrMissing{name}
		}
		nf := &frame{vars: map[string]Val{}, macros: map[string]*boundMacro{}}
		if !x.Only {
			nf.parent = f
		}
		for i, k := range x.WithKeys {
			v, err := in.eval(x.WithVals[i], f)
			if err != nil {
				return err
			}
			nf.vars[k] = v
		}
		var b strings.Builder
		if err := in.renderTemplate(&b, t, nf); err != nil {
			return err
		}
		w.WriteString(b.String())
	case Macro:
		f.macros[x.Name] = &boundMacro{def: x, table: f.macros}
	case Import:
		m, err := in.loadModule(x.E, f)
		if err != nil {
			return err
		}
		f.vars[x.Alias] = m
	case FromImport:
		m, err := in.loadModule(x.E, f)
		if err != nil {
			return err
		}
		for _, n := range x.Names {
			bm, ok := m.macros[n]
			if !ok {
				return &ErrRender{"macro not found: " + n}
			}
			target := n
			if a, ok := x.Aliases[n]; ok {
				target = a
			}
			f.macros[target] = bm
		}
	case Apply:
		var b strings.Builder
		if err := in.execBody(&b, x.Body, f); err != nil {
			return err
		}
		v, err := in.filter(x.Filter, b.String(), nil)
		if err != nil {
			return err
		}
		str, err := ToStr(v)
		if err != nil {
			return err
		}
		w.WriteString(str)
	default:
		return fmt.Errorf("%w: stmt %T", ErrUndefinedBehaviour, s)
	}
	return nil
}

func (in *Interp) loadModule(e Expr, f *frame) (*Module, error) {
	nv, err := in.eval(e, f)
	if err != nil {
		return nil, err
	}
	name, ok := nv.(string)
	if !ok {
		return nil, ErrUndefinedBehaviour
	}
	t, ok := in.Set.T[name]
	if !ok {
		return nil, &ErrMissing{name}
	}
	nf := &frame{vars: map[string]Val{}, macros: map[string]*boundMacro{}}
	var b strings.Builder
	if err := in.renderTemplate(&b, t, nf); err != nil {
		return nil, err
	}
	return &Module{macros: nf.macros}, nil
}

func (in *Interp) callMacro(bm *boundMacro, args []Val, defFrame *frame) (Val, error) {
	in.depth++
	defer func() { in.depth-- }()
	if in.depth > 64 {
		return nil, ErrUndefinedBehaviour
	}
	nf := &frame{vars: map[string]Val{}, macros: bm.table}
	for i, prm := range bm.def.Params {
		if i < len(args) {
			nf.vars[prm] = args[i]
		} else if d, ok := bm.def.Defaults[prm]; ok {
			v, err := in.eval(d, defFrame)
			if err != nil {
				return nil, err
			}
			nf.vars[prm] = v
		} else {
			nf.vars[prm] = nil
		}
	}
	var b strings.Builder
	if err := in.execBody(&b, bm.def.Body, nf); err != nil {
		return nil, err
	}
	return b.String(), nil
}

// OnlyAssigns reports whether statements consist of text, set tags, and conditions and loops around such statements only.
func OnlyAssigns(ss []Stmt) bool {
	for _, s := range ss {
		switch x := s.(type) {
		case Text, Set:
		case If:
			for _, b := range x.Bodies {
				if !OnlyAssigns(b) {
					return false
				}
			}
			if !OnlyAssigns(x.Else) {
				return false
			}
		case For:
			if !OnlyAssigns(x.Body) || !OnlyAssigns(x.Else) {
				return false
			}
		default:
			return false
		}
	}
	return true
}

func intPow(a, b int64) int64 {
	r := int64(1)
	for i := int64(0); i < b; i++ {
		r *= a
	}
	return r
}

const maxExact = int64(1) << 53

func checkRange(n int64) (Val, error) {
	if n > maxExact || n < -maxExact {
		return nil, fmt.Errorf("%w: result outside ±2^53", ErrUndefinedBehaviour)
	}
	return n, nil
}

// Frac is the value of an inexact integer division. The statements fix what it means only under a comparison ("numeric
// comparison"): every other use of it is outside the reference semantics.
type Frac struct{ N, D int64 } // D > 0, N % D != 0

func asRat(v Val) (*big.Rat, bool) {
	switch x := v.(type) {
	case int64:
		return new(big.Rat).SetInt64(x), true
	case Frac:
		return big.NewRat(x.N, x.D), true
	}
	return nil, false
}

// cmpNum compares two numbers (integers or fractions) exactly.
func cmpNum(a, b Val) (int, bool) {
	x, ok1 := asRat(a)
	y, ok2 := asRat(b)
	if !ok1 || !ok2 {
		return 0, false
	}
	return x.Cmp(y), true
}

var reNumeral = regexp.MustCompile(`^[+-]?(\d+\.?\d*|\.\d+)([eE][+-]?\d+)?$`)

// numeral: the number a string spells, if it is a decimal numeral.
func numeral(s string) (*big.Rat, bool) {
	if !reNumeral.MatchString(s) {
		return nil, false
	}
	r, ok := new(big.Rat).SetString(s)
	return r, ok
}

func valEq(a, b Val) (bool, error) {
	if _, isFrac := a.(Frac); isFrac {
		if c, ok := cmpNum(a, b); ok {
			return c == 0, nil
		}
	}
	if _, isFrac := b.(Frac); isFrac {
		if c, ok := cmpNum(a, b); ok {
			return c == 0, nil
		}
	}
	switch x := a.(type) {
	case int64:
		if y, ok := b.(int64); ok {
			return x == y, nil
		}
	case string:
		if y, ok := b.(string); ok {
			// two numerals are compared as numbers however they are spelled ("numeric comparison": '007' == '7.0')
			if rx, ok1 := numeral(x); ok1 {
				if ry, ok2 := numeral(y); ok2 {
					return rx.Cmp(ry) == 0, nil
				}
			}
			return x == y, nil
		}
	}
	return false, fmt.Errorf("%w: == on %T and %T", ErrUndefinedBehaviour, a, b)
}

func (in *Interp) eval(e Expr, f *frame) (Val, error) {
	in.steps++
	if in.steps > 2_000_000 {
		return nil, ErrUndefinedBehaviour
	}
	switch x := e.(type) {
	case Lit:
		if n, ok := x.V.(int); ok {
			return int64(n), nil
		}
		return x.V, nil
	case Paren:
		return in.eval(x.E, f)
	case Var:
		if x.Name == "loop" {
			return nil, ErrUndefinedBehaviour
		}
		v, _ := f.lookup(x.Name)
		return v, nil
	case Attr:
		if vv, ok := x.E.(Var); ok && vv.Name == "loop" {
			if len(f.loops) == 0 {
				return nil, ErrUndefinedBehaviour
			}
			r := f.loops[len(f.loops)-1]
			switch x.Name {
			case "index":
				return int64(r.index0 + 1), nil
			case "index0":
				return int64(r.index0), nil
			case "revindex":
				return int64(r.length - r.index0), nil
			case "revindex0":
				return int64(r.length - r.index0 - 1), nil
			case "first":
				return r.index0 == 0, nil
			case "last":
				return r.index0 == r.length-1, nil
			case "length":
				return int64(r.length), nil
			}
			return nil, ErrUndefinedBehaviour
		}
		b, err := in.eval(x.E, f)
		if err != nil {
			return nil, err
		}
		switch m := b.(type) {
		case map[string]Val:
			return m[x.Name], nil
		case nil:
			return nil, nil
		}
		return nil, fmt.Errorf("%w: attr on %T", ErrUndefinedBehaviour, b)
	case Index:
		b, err := in.eval(x.E, f)
		if err != nil {
			return nil, err
		}
		iv, err := in.eval(x.I, f)
		if err != nil {
			return nil, err
		}
		switch m := b.(type) {
		case map[string]Val:
			k, ok := iv.(string)
			if !ok {
				return nil, ErrUndefinedBehaviour
			}
			return m[k], nil
		case []Val:
			n, ok := iv.(int64)
			if !ok || n < 0 || int(n) >= len(m) {
				return nil, ErrUndefinedBehaviour
			}
			return m[n], nil
		}
		return nil, fmt.Errorf("%w: index on %T", ErrUndefinedBehaviour, b)
	case Un:
		v, err := in.eval(x.E, f)
		if err != nil {
			return nil, err
		}
		if x.Op == "not" {
			return !Truthy(v), nil
		}
		n, ok := v.(int64)
		if !ok {
			return nil, ErrUndefinedBehaviour
		}
		return -n, nil
	case Bin:
		return in.evalBin(x, f)
	case Cond:
		c, err := in.eval(x.C, f)
		if err != nil {
			return nil, err
		}
		if Truthy(c) {
			return in.eval(x.A, f)
		}
		return in.eval(x.B, f)
	case IsDef:
		_, ok := f.lookup(x.Name)
		return ok != x.Neg, nil
	case Filt:
		v, err := in.eval(x.E, f)
		if err != nil {
			return nil, err
		}
		args := make([]Val, len(x.Args))
		for i, a := range x.Args {
			if args[i], err = in.eval(a, f); err != nil {
				return nil, err
			}
		}
		return in.filter(x.Name, v, args)
	case Call:
		args := make([]Val, len(x.Args))
		var err error
		for i, a := range x.Args {
			if args[i], err = in.eval(a, f); err != nil {
				return nil, err
			}
		}
		if fn, ok := in.Funcs[x.Name]; ok {
			return fn(args)
		}
		switch x.Name {
		case "range":
			return refRange(args)
		case "max", "min":
			if len(args) < 1 {
				return nil, ErrUndefinedBehaviour
			}
			best, ok := args[0].(int64)
			if !ok {
				return nil, ErrUndefinedBehaviour
			}
			for _, a := range args[1:] {
				n, ok := a.(int64)
				if !ok {
					return nil, ErrUndefinedBehaviour
				}
				if (x.Name == "max" && n > best) || (x.Name == "min" && n < best) {
					best = n
				}
			}
			return best, nil
		}
		return nil, &ErrRender{"function not found: " + x.Name}
	case Arr:
		out := make([]Val, 0, len(x.Items))
		for _, it := range x.Items {
			v, err := in.eval(it, f)
			if err != nil {
				return nil, err
			}
			out = append(out, v)
		}
		return out, nil
	case Hash:
		out := map[string]Val{}
		for i, k := range x.Keys {
			v, err := in.eval(x.Vals[i], f)
			if err != nil {
				return nil, err
			}
			out[k] = v
		}
		return out, nil
	case MCall:
		args := make([]Val, len(x.Args))
		var err error
		for i, a := range x.Args {
			if args[i], err = in.eval(a, f); err != nil {
				return nil, err
			}
		}
		var bm *boundMacro
		switch x.Prefix {
		case "", "_self":
			bm = f.macros[x.Name]
		default:
			mv, _ := f.lookup(x.Prefix)
			m, ok := mv.(*Module)
			if !ok {
				return nil, &ErrRender{"not a module: " + x.Prefix}
			}
			bm = m.macros[x.Name]
		}
		if bm == nil {
			return nil, &ErrRender{"macro not found: " + x.Name}
		}
		return in.callMacro(bm, args, f)
	case Parent:
		if len(f.bstack) == 0 {
			return nil, ErrUndefinedBehaviour
		}
		top := f.bstack[len(f.bstack)-1]
		if top.level == 0 {
			return nil, ErrUndefinedBehaviour
		}
		defs := f.defs[top.name]
		var b strings.Builder
		f.bstack = append(f.bstack, blockPos{top.name, top.level - 1})
		err := in.execBody(&b, defs[top.level-1], f)
		f.bstack = f.bstack[:len(f.bstack)-1]
		if err != nil {
			return nil, err
		}
		return b.String(), nil
	}
	return nil, fmt.Errorf("%w: expr %T", ErrUndefinedBehaviour, e)
}

func refRange(args []Val) (Val, error) {
	if len(args) < 2 || len(args) > 3 {
		return nil, ErrUndefinedBehaviour
	}
	a, ok1 := args[0].(int64)
	b, ok2 := args[1].(int64)
	if !ok1 || !ok2 {
		return nil, ErrUndefinedBehaviour
	}
	step := int64(1)
	if len(args) == 3 {
		s, ok := args[2].(int64)
		if !ok || s == 0 {
			return nil, ErrUndefinedBehaviour
		}
		step = s
	}
	if (step > 0 && a > b) || (step < 0 && a < b) {
		return nil, fmt.Errorf("%w: range step pointing away from end", ErrUndefinedBehaviour)
	}
	out := []Val{}
	if step > 0 {
		for i := a; i <= b; i += step {
			out = append(out, i)
		}
	} else {
		for i := a; i >= b; i += step {
			out = append(out, i)
		}
	}
	return out, nil
}

func (in *Interp) evalBin(x Bin, f *frame) (Val, error) {
	l, err := in.eval(x.L, f)
	if err != nil {
		return nil, err
	}
	switch x.Op {
	case "and":
		if !Truthy(l) {
			return false, nil
		}
		r, err := in.eval(x.R, f)
		if err != nil {
			return nil, err
		}
		return Truthy(r), nil
	case "or":
		if Truthy(l) {
			return true, nil
		}
		r, err := in.eval(x.R, f)
		if err != nil {
			return nil, err
		}
		return Truthy(r), nil
	}
	r, err := in.eval(x.R, f)
	if err != nil {
		return nil, err
	}
	switch x.Op {
	case "+", "-", "*", "/", "%", "^":
		a, ok1 := l.(int64)
		b, ok2 := r.(int64)
		if !ok1 || !ok2 {
			return nil, fmt.Errorf("%w: arithmetic on %T,%T", ErrUndefinedBehaviour, l, r)
		}
		switch x.Op {
		case "+":
			return checkRange(a + b)
		case "-":
			return checkRange(a - b)
		case "*":
			if a != 0 && b != 0 {
				p := a * b
				if p/b != a {
					return nil, ErrUndefinedBehaviour
				}
				return checkRange(p)
			}
			return int64(0), nil
		case "/":
			if b == 0 {
				return nil, fmt.Errorf("%w: division by zero", ErrUndefinedBehaviour)
			}
			if a%b != 0 {
				// a fraction: defined only as an operand of a comparison (see Frac)
				if b < 0 {
					a, b = -a, -b
				}
				return Frac{N: a, D: b}, nil
			}
			return a / b, nil
		case "%":
			if a < 0 || b <= 0 {
				return nil, fmt.Errorf("%w: modulo sign", ErrUndefinedBehaviour)
			}
			return a % b, nil
		case "^":
			if b < 0 || b > 8 {
				return nil, ErrUndefinedBehaviour
			}
			abs := a
			if abs < 0 {
				abs = -abs
			}
			if abs > 1 {
				// overflow guard
				lim := maxExact
				p := int64(1)
				for i := int64(0); i < b; i++ {
					if p > lim/abs {
						return nil, ErrUndefinedBehaviour
					}
					p *= abs
				}
			}
			return checkRange(intPow(a, b))
		}
	case "~":
		ls, err := ToStr(l)
		if err != nil {
			return nil, err
		}
		rs, err := ToStr(r)
		if err != nil {
			return nil, err
		}
		return ls + rs, nil
	case "==":
		return valEq(l, r)
	case "!=":
		eq, err := valEq(l, r)
		return !eq, err
	case "<", ">", "<=", ">=":
		c, ok := cmpNum(l, r)
		if !ok {
			return nil, fmt.Errorf("%w: ordering on %T,%T", ErrUndefinedBehaviour, l, r)
		}
		switch x.Op {
		case "<":
			return c < 0, nil
		case ">":
			return c > 0, nil
		case "<=":
			return c <= 0, nil
		default:
			return c >= 0, nil
		}
	case "in", "not in":
		var res bool
		switch c := r.(type) {
		case []Val:
			for _, it := range c {
				eq, err := valEq(l, it)
				if err != nil {
					return nil, err
				}
				if eq {
					res = true
				}
			}
		case string:
			ls, ok := l.(string)
			if !ok {
				return nil, ErrUndefinedBehaviour
			}
			res = strings.Contains(c, ls)
		default:
			return nil, fmt.Errorf("%w: in on %T", ErrUndefinedBehaviour, r)
		}
		return res != (x.Op == "not in"), nil
	case "starts with", "ends with", "matches":
		ls, ok1 := l.(string)
		rs, ok2 := r.(string)
		if !ok1 || !ok2 {
			return nil, ErrUndefinedBehaviour
		}
		switch x.Op {
		case "starts with":
			return strings.HasPrefix(ls, rs), nil
		case "ends with":
			return strings.HasSuffix(ls, rs), nil
		default:
			// generators only use literal patterns without metacharacters
			return strings.Contains(ls, rs), nil
		}
	}
	return nil, fmt.Errorf("%w: operator %s", ErrUndefinedBehaviour, x.Op)
}

// filter implements the filters whose meaning the statements fix.
func (in *Interp) filter(name string, v Val, args []Val) (Val, error) {
	if fn, ok := in.Filters[name]; ok {
		return fn(v, args)
	}
	switch name {
	case "upper", "lower", "trim":
		s, ok := v.(string)
		if !ok {
			return nil, ErrUndefinedBehaviour
		}
		switch name {
		case "upper":
			return strings.ToUpper(s), nil
		case "lower":
			return strings.ToLower(s), nil
		}
		return strings.Trim(s, " \t\n\r"), nil
	case "length":
		switch x := v.(type) {
		case string:
			if !utf8.ValidString(x) {
				return nil, ErrUndefinedBehaviour
			}
			return int64(utf8.RuneCountInString(x)), nil
		case []Val:
			return int64(len(x)), nil
		case map[string]Val:
			return int64(len(x)), nil
		}
		return nil, ErrUndefinedBehaviour
	case "default":
		if len(args) != 1 {
			return nil, ErrUndefinedBehaviour
		}
		switch x := v.(type) {
		case nil:
			return args[0], nil
		case string:
			if x == "" {
				return args[0], nil
			}
			return v, nil
		case []Val:
			if len(x) == 0 {
				return args[0], nil
			}
			return v, nil
		case map[string]Val:
			if len(x) == 0 {
				return args[0], nil
			}
			return v, nil
		case int64:
			if x == 0 {
				return nil, ErrUndefinedBehaviour
			}
			return v, nil
		case bool:
			if !x {
				return nil, ErrUndefinedBehaviour
			}
			return v, nil
		}
		return nil, ErrUndefinedBehaviour
	case "join":
		l, ok := v.([]Val)
		if !ok {
			return nil, ErrUndefinedBehaviour
		}
		sep := ""
		if len(args) > 0 {
			s, ok := args[0].(string)
			if !ok {
				return nil, ErrUndefinedBehaviour
			}
			sep = s
		} else {
			return nil, ErrUndefinedBehaviour
		}
		parts := make([]string, len(l))
		for i, it := range l {
			s, err := ToStr(it)
			if err != nil {
				return nil, err
			}
			parts[i] = s
		}
		return strings.Join(parts, sep), nil
	case "first", "last":
		switch x := v.(type) {
		case []Val:
			if len(x) == 0 {
				return nil, ErrUndefinedBehaviour
			}
			if name == "first" {
				return x[0], nil
			}
			return x[len(x)-1], nil
		}
		return nil, ErrUndefinedBehaviour
	case "merge":
		// lists: the elements of the argument follow those of the receiver, in a list of its own
		x, ok1 := v.([]Val)
		if len(args) != 1 || !ok1 {
			return nil, ErrUndefinedBehaviour
		}
		y, ok2 := args[0].([]Val)
		if !ok2 {
			return nil, ErrUndefinedBehaviour
		}
		out := make([]Val, 0, len(x)+len(y))
		out = append(append(out, x...), y...)
		return out, nil
	case "reverse":
		switch x := v.(type) {
		case []Val:
			out := make([]Val, len(x))
			for i := range x {
				out[len(x)-1-i] = x[i]
			}
			return out, nil
		}
		return nil, ErrUndefinedBehaviour
	case "slice":
		if len(args) < 1 || len(args) > 2 {
			return nil, ErrUndefinedBehaviour
		}
		st, ok := args[0].(int64)
		if !ok {
			return nil, ErrUndefinedBehaviour
		}
		var ln *int64
		if len(args) == 2 {
			n, ok := args[1].(int64)
			if !ok {
				return nil, ErrUndefinedBehaviour
			}
			ln = &n
		}
		switch x := v.(type) {
		case []Val:
			a, b := SliceBounds(len(x), st, ln)
			out := make([]Val, b-a)
			copy(out, x[a:b])
			return out, nil
		case string:
			if !utf8.ValidString(x) {
				return nil, ErrUndefinedBehaviour
			}
			rs := []rune(x)
			a, b := SliceBounds(len(rs), st, ln)
			return string(rs[a:b]), nil
		}
		return nil, ErrUndefinedBehaviour
	case "keys":
		m, ok := v.(map[string]Val)
		if !ok {
			return nil, ErrUndefinedBehaviour
		}
		ks := make([]string, 0, len(m))
		for k := range m {
			ks = append(ks, k)
		}
		sort.Strings(ks)
		out := make([]Val, len(ks))
		for i, k := range ks {
			out[i] = k
		}
		return out, nil
	}
	return nil, &ErrRender{"filter not found: " + name}
}

// SliceBounds implements Twig's slice(start, length) index rules (PHP array_slice / mb_substr):
// negative start counts from the end (clamped to 0), start beyond the end gives the empty
// slice, omitted length means "to the end", negative length stops that many elements before
// the end, and everything is clamped to the sequence.
func SliceBounds(n int, start int64, length *int64) (int, int) {
	s := start
	if s < 0 {
		s += int64(n)
		if s < 0 {
			s = 0
		}
	}
	if s > int64(n) {
		s = int64(n)
	}
	e := int64(n)
	if length != nil {
		if *length >= 0 {
			e = s + *length
			if e > int64(n) {
				e = int64(n)
			}
		} else {
			e = int64(n) + *length
			if e < s {
				e = s
			}
		}
	}
	return int(s), int(e)
}
