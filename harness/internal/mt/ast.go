// Package mt ("minitwig") is the harness-side model of the template language:
// ASTs that generators build, a printer that turns them into Twig source for the
// engine, and a reference interpreter whose semantics are transcribed from the
// property statements. It never parses Twig.
package mt

// Val is a reference value: nil | bool | int64 | string | []Val | map[string]Val.
type Val = interface{}

type Expr interface{ isExpr() }

type Lit struct{ V Val } // nil, bool, int64, string
type Var struct{ Name string }
type Attr struct {
	E    Expr
	Name string
}
type Index struct{ E, I Expr }
type Un struct {
	Op string // "-" | "not"
	E  Expr
}
type Bin struct {
	Op   string
	L, R Expr
}
type Cond struct{ C, A, B Expr }
type IsDef struct {
	Name string
	Neg  bool
}
type Filt struct {
	E    Expr
	Name string
	Args []Expr
}
type Call struct {
	Name string
	Args []Expr
}
type Arr struct{ Items []Expr }
type Hash struct {
	Keys []string
	Vals []Expr
}

// MCall is a macro call. Prefix "" = bare name, otherwise "_self" or an import alias.
type MCall struct {
	Prefix string
	Name   string
	Args   []Expr
}

// Paren is an explicit, semantically void pair of parentheses.
type Paren struct{ E Expr }

// Parent is the parent() call inside a block.
type Parent struct{}

func (Lit) isExpr()    {}
func (Var) isExpr()    {}
func (Attr) isExpr()   {}
func (Index) isExpr()  {}
func (Un) isExpr()     {}
func (Bin) isExpr()    {}
func (Cond) isExpr()   {}
func (IsDef) isExpr()  {}
func (Filt) isExpr()   {}
func (Call) isExpr()   {}
func (Arr) isExpr()    {}
func (Hash) isExpr()   {}
func (MCall) isExpr()  {}
func (Paren) isExpr()  {}
func (Parent) isExpr() {}

type Stmt interface{ isStmt() }

type Text struct{ S string }
type Print struct{ E Expr }
type If struct {
	Conds   []Expr
	Bodies  [][]Stmt
	Else    []Stmt
	HasElse bool
}
type For struct {
	Key, Val string
	Seq      Expr
	Body     []Stmt
	Else     []Stmt
	HasElse  bool
}
type Set struct {
	Name string
	E    Expr
}
type Block struct {
	Name string
	Body []Stmt
}
type Extends struct{ E Expr }
type Include struct {
	E             Expr
	WithKeys      []string
	WithVals      []Expr
	HasWith       bool
	Only          bool
	IgnoreMissing bool
	Sandboxed     bool
}
type Macro struct {
	Name     string
	Params   []string
	Defaults map[string]Expr
	Body     []Stmt
}
type Import struct {
	E     Expr
	Alias string
}
type FromImport struct {
	E       Expr
	Names   []string
	Aliases map[string]string
}
type Apply struct {
	Filter string
	Body   []Stmt
}
type Spaceless struct{ Body []Stmt }
type Verbatim struct{ Raw string }
type Comment struct{ Raw string }
type Do struct{ E Expr }

// RawTag is a tag printed verbatim (used by grids that need a spelling the AST cannot express).
type RawTag struct{ Src string }

func (Text) isStmt()       {}
func (Print) isStmt()      {}
func (If) isStmt()         {}
func (For) isStmt()        {}
func (Set) isStmt()        {}
func (Block) isStmt()      {}
func (Extends) isStmt()    {}
func (Include) isStmt()    {}
func (Macro) isStmt()      {}
func (Import) isStmt()     {}
func (FromImport) isStmt() {}
func (Apply) isStmt()      {}
func (Spaceless) isStmt()  {}
func (Verbatim) isStmt()   {}
func (Comment) isStmt()    {}
func (Do) isStmt()         {}
func (RawTag) isStmt()     {}

// Tmpl is one named template.
type Tmpl struct {
	Name string
	Body []Stmt
}

// Set of templates, in a fixed order.
type TmplSet struct {
	Names []string
	T     map[string]*Tmpl
}

func NewSet() *TmplSet { return &TmplSet{T: map[string]*Tmpl{}} }
func (s *TmplSet) Add(name string, body []Stmt) *Tmpl {
	t := &Tmpl{Name: name, Body: body}
	if _, ok := s.T[name]; !ok {
		s.Names = append(s.Names, name)
	}
	s.T[name] = t
	return t
}

// Helpers for building ASTs tersely.
func I(n int64) Lit               { return Lit{V: n} }
func S(s string) Lit              { return Lit{V: s} }
func B(b bool) Lit                { return Lit{V: b} }
func Null() Lit                   { return Lit{V: nil} }
func V(n string) Var              { return Var{Name: n} }
func T(s string) Text             { return Text{S: s} }
func P(e Expr) Print              { return Print{E: e} }
func Op(op string, l, r Expr) Bin { return Bin{Op: op, L: l, R: r} }
