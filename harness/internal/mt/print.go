package mt

import (
	"fmt"
	"strconv"
	"strings"

	"verifharness/internal/core"
)

// Piece is one lexical unit of a printed template: literal text or a tag.
type Piece struct {
	Tag   bool
	Kind  string // text | print | if | elseif | else | endif | for | endfor | set | block | endblock | extends | include | macro | endmacro | import | from | apply | endapply | spaceless | endspaceless | verbatim | endverbatim | verbatimbody | comment | do | raw
	Text  string // literal text (Tag == false)
	Open  string // "{{" | "{%" | "{#"
	Inner string
	Close string
	DashL bool
	DashR bool
	// NoDash marks tags that never receive dashes (comments, raw tags).
	NoDash bool
}

func (p Piece) String() string {
	if !p.Tag {
		return p.Text
	}
	o, c := p.Open, p.Close
	if p.DashL {
		o += "-"
	}
	if p.DashR {
		c = "-" + c
	}
	return o + p.Inner + c
}

func Join(ps []Piece) string {
	var b strings.Builder
	for _, p := range ps {
		b.WriteString(p.String())
	}
	return b.String()
}

// Paren modes.
const (
	ParenMinimal = iota
	ParenFull
	ParenRandom
)

// Printer turns ASTs into Twig source.
type Printer struct {
	Mode  int
	R     *core.Rand // nil: canonical spacing
	Tight bool       // no blanks around symbolic operators / inside delimiters
	// WideSpace lets the printer use tabs / newlines / runs of blanks around binary operators.
	WideSpace bool
}

func (p *Printer) coin(num, den int) bool {
	if p.R == nil {
		return false
	}
	return p.R.P(num, den)
}

func prec(op string) int {
	switch op {
	case "or":
		return 1
	case "and":
		return 2
	case "==", "!=", "<", ">", "<=", ">=", "in", "not in", "matches", "starts with", "ends with":
		return 3
	case "+", "-", "~":
		return 4
	case "*", "/", "%":
		return 5
	case "^":
		return 6
	}
	return 0
}

func isWordOp(op string) bool {
	c := op[0]
	return c >= 'a' && c <= 'z'
}

// QuoteStr prints a string literal. Generators only use characters that need no escaping
// besides the quote and the backslash.
func QuoteStr(s string, dbl bool) string {
	q := "'"
	if dbl {
		q = "\""
	}
	var b strings.Builder
	b.WriteString(q)
	for i := 0; i < len(s); i++ {
		c := s[i]
		switch {
		case c == '\\':
			b.WriteString("\\\\")
		case string(c) == q:
			b.WriteString("\\" + q)
		case c == '\n':
			b.WriteString("\\n")
		case c == '\t':
			b.WriteString("\\t")
		case c == '\r':
			b.WriteString("\\r")
		default:
			b.WriteByte(c)
		}
	}
	b.WriteString(q)
	return b.String()
}

func isNegLit(e Expr) bool {
	if l, ok := e.(Lit); ok {
		if n, ok := l.V.(int64); ok && n < 0 {
			return true
		}
	}
	return false
}

// isAtom: may be followed by |filter, .attr or [index] without parentheses.
func isPostfixBase(e Expr) bool {
	switch x := e.(type) {
	case Var, Attr, Index, Paren:
		return true
	case Lit:
		_ = x
		return false
	}
	return false
}

func isFilterBase(e Expr) bool {
	switch e.(type) {
	case Var, Attr, Index, Paren, Call, Arr, Filt, MCall:
		return true
	case Lit:
		return !isNegLit(e)
	}
	return false
}

func (p *Printer) wrap(s string) string {
	if p.coin(1, 6) {
		return "( " + s + " )"
	}
	return "(" + s + ")"
}

// Expr prints an expression as a root (no surrounding parentheses needed).
func (p *Printer) Expr(e Expr) string {
	s := p.expr(e)
	if p.Mode == ParenRandom && p.coin(1, 8) {
		return p.wrap(s)
	}
	return s
}

// operand prints e as an operand; need says whether minimal mode requires parentheses.
func (p *Printer) operand(e Expr, need bool) string {
	s := p.expr(e)
	switch p.Mode {
	case ParenFull:
		switch e.(type) {
		case Bin, Un, Cond, IsDef:
			return p.wrap(s)
		}
		if isNegLit(e) {
			return p.wrap(s)
		}
	case ParenRandom:
		if !need && p.coin(1, 5) {
			return p.wrap(s)
		}
	}
	if need {
		return p.wrap(s)
	}
	return s
}

func (p *Printer) args(as []Expr) string {
	parts := make([]string, len(as))
	for i, a := range as {
		parts[i] = p.Expr(a)
	}
	sep := ", "
	if p.Tight || p.coin(1, 6) {
		sep = ","
	}
	return strings.Join(parts, sep)
}

func (p *Printer) expr(e Expr) string {
	switch x := e.(type) {
	case Lit:
		switch v := x.V.(type) {
		case nil:
			return "null"
		case bool:
			if v {
				return "true"
			}
			return "false"
		case int64:
			return strconv.FormatInt(v, 10)
		case int:
			return strconv.Itoa(v)
		case string:
			return QuoteStr(v, p.coin(1, 4))
		}
		panic(fmt.Sprintf("mt: unprintable literal %T", x.V))
	case Var:
		return x.Name
	case Paren:
		return "(" + p.expr(x.E) + ")"
	case Attr:
		return p.operand(x.E, !isPostfixBase(x.E)) + "." + x.Name
	case Index:
		return p.operand(x.E, !isPostfixBase(x.E)) + "[" + p.Expr(x.I) + "]"
	case Un:
		need := false
		switch x.E.(type) {
		case Bin, Cond, IsDef, Un, Filt:
			need = true
		}
		if isNegLit(x.E) {
			need = true
		}
		if x.Op == "not" {
			return "not " + p.operand(x.E, need)
		}
		return "-" + p.operand(x.E, need)
	case Bin:
		pr := prec(x.Op)
		if pr == 0 {
			panic("mt: unknown operator " + x.Op)
		}
		ln, rn := false, false
		switch l := x.L.(type) {
		case Bin:
			ln = prec(l.Op) < pr
		case Cond, IsDef, Filt:
			ln = true
		case Un:
			ln = x.Op == "^" || (l.Op == "not" && pr >= 3)
		case Lit:
			ln = isNegLit(x.L) && x.Op == "^"
		}
		switch r := x.R.(type) {
		case Bin:
			rn = prec(r.Op) <= pr
		case Cond, IsDef, Filt:
			rn = true
		case Un:
			rn = r.Op == "not" && pr >= 3
		}
		ls, rs := p.operand(x.L, ln), p.operand(x.R, rn)
		if p.WideSpace && p.coin(1, 6) {
			// other admissible blanks between tokens: tab, newline, several spaces
			b1 := []string{"\t", "\n", "  ", " \n ", "\r\n"}[p.R.Intn(5)]
			b2 := []string{"\t", "\n", "  ", " "}[p.R.Intn(4)]
			return ls + b1 + x.Op + b2 + rs
		}
		if isWordOp(x.Op) {
			return ls + " " + x.Op + " " + rs
		}
		if p.Tight || p.coin(1, 8) {
			// "a - -b" must not become "a--b"? it still tokenizes as a, -, -, b; keep a blank anyway
			if strings.HasPrefix(rs, "-") && (x.Op == "-") {
				return ls + x.Op + " " + rs
			}
			return ls + x.Op + rs
		}
		return ls + " " + x.Op + " " + rs
	case Cond:
		part := func(e Expr) string {
			need := false
			switch e.(type) {
			case Bin, Cond, Un, IsDef, Filt:
				need = true
			}
			if isNegLit(e) {
				need = true
			}
			return p.operand(e, need)
		}
		return part(x.C) + " ? " + part(x.A) + " : " + part(x.B)
	case IsDef:
		if x.Neg {
			return x.Name + " is not defined"
		}
		return x.Name + " is defined"
	case Filt:
		s := p.operand(x.E, !isFilterBase(x.E)) + "|" + x.Name
		if len(x.Args) > 0 {
			s += "(" + p.args(x.Args) + ")"
		}
		return s
	case Call:
		return x.Name + "(" + p.args(x.Args) + ")"
	case MCall:
		if x.Prefix != "" {
			return x.Prefix + "." + x.Name + "(" + p.args(x.Args) + ")"
		}
		return x.Name + "(" + p.args(x.Args) + ")"
	case Parent:
		return "parent()"
	case Arr:
		return "[" + p.args(x.Items) + "]"
	case Hash:
		parts := make([]string, len(x.Keys))
		for i, k := range x.Keys {
			parts[i] = QuoteStr(k, false) + ": " + p.Expr(x.Vals[i])
		}
		return "{" + strings.Join(parts, ", ") + "}"
	}
	panic(fmt.Sprintf("mt: unprintable expr %T", e))
}

// ---------------------------------------------------------------- statements

func (p *Printer) sp() string {
	if p.Tight {
		return ""
	}
	if p.coin(1, 10) {
		return "  "
	}
	return " "
}

func (p *Printer) tag(kind, open, inner, close string) Piece {
	return Piece{Tag: true, Kind: kind, Open: open, Inner: inner, Close: close}
}

func (p *Printer) block(kind, inner string) Piece {
	// a block tag always needs a blank after the keyword; the outer blanks are optional
	l, r := p.sp(), p.sp()
	return p.tag(kind, "{%", l+inner+r, "%}")
}

// Pieces prints a statement list.
func (p *Printer) Pieces(body []Stmt) []Piece {
	var out []Piece
	for _, s := range body {
		out = p.stmt(out, s)
	}
	return out
}

// Source prints a statement list to a string.
func (p *Printer) Source(body []Stmt) string { return Join(p.Pieces(body)) }

func (p *Printer) stmt(out []Piece, s Stmt) []Piece {
	switch x := s.(type) {
	case Text:
		if x.S == "" {
			return out
		}
		// merge adjacent text so that piece boundaries are tag boundaries
		if n := len(out); n > 0 && !out[n-1].Tag && out[n-1].Kind == "text" {
			out[n-1].Text += x.S
			return out
		}
		return append(out, Piece{Kind: "text", Text: x.S})
	case Print:
		inner := p.Expr(x.E)
		l := p.sp()
		if l == "" && len(inner) > 0 && inner[0] == '-' {
			l = " " // "{{-1}}" would be a whitespace-control dash, not a minus sign
		}
		return append(out, p.tag("print", "{{", l+inner+p.sp(), "}}"))
	case If:
		for i, c := range x.Conds {
			kw := "if"
			if i > 0 {
				kw = "elseif"
			}
			out = append(out, p.block(kw, kw+" "+p.Expr(c)))
			out = append(out, p.Pieces(x.Bodies[i])...)
		}
		if x.HasElse {
			out = append(out, p.block("else", "else"))
			out = append(out, p.Pieces(x.Else)...)
		}
		return append(out, p.block("endif", "endif"))
	case For:
		h := "for " + x.Val + " in " + p.Expr(x.Seq)
		if x.Key != "" {
			h = "for " + x.Key + ", " + x.Val + " in " + p.Expr(x.Seq)
		}
		out = append(out, p.block("for", h))
		out = append(out, p.Pieces(x.Body)...)
		if x.HasElse {
			out = append(out, p.block("else", "else"))
			out = append(out, p.Pieces(x.Else)...)
		}
		return append(out, p.block("endfor", "endfor"))
	case Set:
		return append(out, p.block("set", "set "+x.Name+" = "+p.Expr(x.E)))
	case Do:
		return append(out, p.block("do", "do "+p.Expr(x.E)))
	case Block:
		out = append(out, p.block("block", "block "+x.Name))
		out = append(out, p.Pieces(x.Body)...)
		return append(out, p.block("endblock", "endblock"))
	case Extends:
		return append(out, p.block("extends", "extends "+p.Expr(x.E)))
	case Include:
		h := "include " + p.Expr(x.E)
		if x.IgnoreMissing {
			h += " ignore missing"
		}
		if x.HasWith {
			parts := make([]string, len(x.WithKeys))
			for i, k := range x.WithKeys {
				parts[i] = QuoteStr(k, false) + ": " + p.Expr(x.WithVals[i])
			}
			h += " with {" + strings.Join(parts, ", ") + "}"
		}
		if x.Only {
			h += " only"
		}
		if x.Sandboxed {
			h += " sandboxed"
		}
		return append(out, p.block("include", h))
	case Macro:
		parts := make([]string, len(x.Params))
		for i, prm := range x.Params {
			parts[i] = prm
			if d, ok := x.Defaults[prm]; ok {
				parts[i] += " = " + p.Expr(d)
			}
		}
		out = append(out, p.block("macro", "macro "+x.Name+"("+strings.Join(parts, ", ")+")"))
		out = append(out, p.Pieces(x.Body)...)
		return append(out, p.block("endmacro", "endmacro"))
	case Import:
		return append(out, p.block("import", "import "+p.Expr(x.E)+" as "+x.Alias))
	case FromImport:
		parts := make([]string, len(x.Names))
		for i, n := range x.Names {
			parts[i] = n
			if a, ok := x.Aliases[n]; ok {
				parts[i] += " as " + a
			}
		}
		return append(out, p.block("from", "from "+p.Expr(x.E)+" import "+strings.Join(parts, ", ")))
	case Apply:
		out = append(out, p.block("apply", "apply "+x.Filter))
		out = append(out, p.Pieces(x.Body)...)
		return append(out, p.block("endapply", "endapply"))
	case Spaceless:
		out = append(out, p.block("spaceless", "spaceless"))
		out = append(out, p.Pieces(x.Body)...)
		return append(out, p.block("endspaceless", "endspaceless"))
	case Verbatim:
		out = append(out, p.block("verbatim", "verbatim"))
		out = append(out, Piece{Kind: "verbatimbody", Text: x.Raw})
		return append(out, p.block("endverbatim", "endverbatim"))
	case Comment:
		pc := p.tag("comment", "{#", x.Raw, "#}")
		pc.NoDash = true
		return append(out, pc)
	case RawTag:
		pc := Piece{Tag: true, Kind: "raw", Inner: x.Src, NoDash: true}
		return append(out, pc)
	}
	panic(fmt.Sprintf("mt: unprintable stmt %T", s))
}

// SourceSet prints every template of a set canonically.
func (p *Printer) SourceSet(s *TmplSet) map[string]string {
	m := map[string]string{}
	for _, n := range s.Names {
		m[n] = p.Source(s.T[n].Body)
	}
	return m
}
