// Package core holds what every property check shares: the deterministic
// PRNG, the per-shard recorder that children fill, the violation / evidence
// formats, and the known-findings matcher.
package core

import (
	"crypto/sha256"
	"encoding/hex"
	"encoding/json"
	"fmt"
	"hash/fnv"
	"os"
	"regexp"
	"runtime"
	"sort"
	"strings"
)

// ---------------------------------------------------------------- PRNG

// Rand is a splitmix64 stream. A case is regenerated from (property, seed, index).
type Rand struct{ s uint64 }

func mix(z uint64) uint64 {
	z = (z ^ (z >> 30)) * 0xbf58476d1ce4e5b9
	z = (z ^ (z >> 27)) * 0x94d049bb133111eb
	return z ^ (z >> 31)
}

// NewRand derives an independent stream for (prop, seed, idx).
func NewRand(prop string, seed uint64, idx int) *Rand {
	h := fnv.New64a()
	h.Write([]byte(prop))
	s := mix(h.Sum64()) ^ mix(seed+0x9e3779b97f4a7c15) ^ mix(uint64(idx)*0xd1342543de82ef95+1)
	return &Rand{s: mix(s)}
}

func (r *Rand) U64() uint64 {
	r.s += 0x9e3779b97f4a7c15
	return mix(r.s)
}

// Intn returns a value in [0,n).
func (r *Rand) Intn(n int) int {
	if n <= 0 {
		return 0
	}
	return int(r.U64() % uint64(n))
}

// Range returns a value in [lo,hi].
func (r *Rand) Range(lo, hi int) int { return lo + r.Intn(hi-lo+1) }
func (r *Rand) Bool() bool           { return r.U64()&1 == 1 }

// P returns true with probability num/den.
func (r *Rand) P(num, den int) bool { return r.Intn(den) < num }
func (r *Rand) Pick(xs []string) string {
	return xs[r.Intn(len(xs))]
}
func (r *Rand) Perm(n int) []int {
	p := make([]int, n)
	for i := range p {
		p[i] = i
	}
	for i := n - 1; i > 0; i-- {
		j := r.Intn(i + 1)
		p[i], p[j] = p[j], p[i]
	}
	return p
}

// Fork derives a sub-stream so that consuming more values in one part of a
// generator does not shift the others.
func (r *Rand) Fork() *Rand { return &Rand{s: mix(r.U64())} }

// ---------------------------------------------------------------- recorder

// Violation is one refuting observation.
type Violation struct {
	Prop    string      `json:"property"`
	Monitor string      `json:"monitor"`
	Sig     string      `json:"signature"`
	What    string      `json:"what"`
	Seed    uint64      `json:"seed"`
	Index   int         `json:"index"`
	Tier    string      `json:"tier"`
	Case    interface{} `json:"case,omitempty"`
	Detail  string      `json:"detail,omitempty"`
}

// Recorder is filled by one child (one shard).
type Recorder struct {
	Prop         string            `json:"prop"`
	Evals        int               `json:"evals"`
	Hashes       []uint64          `json:"hashes"` // distinct non-trivial case hashes seen by this shard
	Counters     map[string]int    `json:"counters"`
	Samples      map[string][]any  `json:"samples"` // by class, bounded
	Violations   []Violation       `json:"violations"`
	ViolCount    int               `json:"violCount"`
	Inconclusive []string          `json:"inconclusive"`
	Notes        map[string]string `json:"notes"`
	Broken       []string          `json:"broken"` // harness faults (never verdicts)

	hset    map[uint64]struct{}
	sigSeen map[string]int
	Seed    uint64 `json:"-"`
	Tier    string `json:"-"`
	CurIdx  int    `json:"-"`
}

func NewRecorder(prop string, seed uint64, tier string) *Recorder {
	return &Recorder{Prop: prop, Counters: map[string]int{}, Samples: map[string][]any{},
		Notes: map[string]string{}, hset: map[uint64]struct{}{}, sigSeen: map[string]int{}, Seed: seed, Tier: tier}
}

func Hash64(parts ...string) uint64 {
	h := fnv.New64a()
	for _, p := range parts {
		h.Write([]byte(p))
		h.Write([]byte{0})
	}
	return h.Sum64()
}

// Eval records one executed case. canon is the canonical printed case; nontrivial
// says whether it satisfies the property's non-triviality rule.
func (r *Recorder) Eval(class, canon string, nontrivial bool) {
	r.Evals++
	r.Counters["class:"+class]++
	if nontrivial {
		h := Hash64(canon)
		if _, ok := r.hset[h]; !ok {
			r.hset[h] = struct{}{}
		}
	}
}

func (r *Recorder) Count(key string, n int) { r.Counters[key] += n }
func (r *Recorder) Max(key string, n int) {
	if n > r.Counters[key] {
		r.Counters[key] = n
	}
}

// Sample keeps up to 2 samples per class per shard.
func (r *Recorder) Sample(class string, s any) {
	if len(r.Samples[class]) < 2 {
		r.Samples[class] = append(r.Samples[class], s)
	}
}
func (r *Recorder) WantSample(class string) bool { return len(r.Samples[class]) < 2 }

// HarnessFault records a defect of the checking machinery itself (exit 2, never a verdict).
func (r *Recorder) HarnessFault(format string, a ...any) {
	if len(r.Broken) < 20 {
		r.Broken = append(r.Broken, fmt.Sprintf(format, a...))
	}
}

func (r *Recorder) Inconc(format string, a ...any) {
	if len(r.Inconclusive) < 200 {
		r.Inconclusive = append(r.Inconclusive, fmt.Sprintf(format, a...))
	}
	r.Counters["inconclusive"]++
}

// Violate records a violation; at most 3 witnesses are kept per signature.
func (r *Recorder) Violate(monitor, sig, what string, cs any, detail string) {
	r.ViolCount++
	r.sigSeen[sig]++
	if r.sigSeen[sig] > 3 || len(r.Violations) >= 400 {
		return
	}
	if len(detail) > 6000 {
		detail = detail[:6000] + "…"
	}
	r.Violations = append(r.Violations, Violation{Prop: r.Prop, Monitor: monitor, Sig: sig, What: what,
		Seed: r.Seed, Index: r.CurIdx, Tier: r.Tier, Case: cs, Detail: detail})
}

func (r *Recorder) Finish() {
	r.Hashes = r.Hashes[:0]
	for h := range r.hset {
		r.Hashes = append(r.Hashes, h)
	}
	sort.Slice(r.Hashes, func(i, j int) bool { return r.Hashes[i] < r.Hashes[j] })
}

// SigHash builds "<monitor>:<sha256[:16] of canon>".
func SigHash(monitor, canon string) string {
	s := sha256.Sum256([]byte(canon))
	return monitor + ":" + hex.EncodeToString(s[:8])
}

var twigFrame = regexp.MustCompile(`github\.com/semihalev/twig\.([^\s(]+(?:\([^)]*\))?[^\s(]*)\(`)
var twigFrameSimple = regexp.MustCompile(`github\.com/semihalev/twig\.(\S+?)\(`)

// PanicSite extracts the innermost twig frame (function name only) from a stack dump.
func PanicSite(stack string) string {
	for _, line := range strings.Split(stack, "\n") {
		line = strings.TrimSpace(line)
		if !strings.HasPrefix(line, "github.com/semihalev/twig.") {
			continue
		}
		// strip args
		name := strings.TrimPrefix(line, "github.com/semihalev/twig.")
		if i := strings.LastIndex(name, "("); i >= 0 {
			name = name[:i]
		}
		name = strings.TrimSuffix(name, "(...)")
		return name
	}
	return "unknown"
}

// DominantSite names the engine function that occurs most often in a goroutine dump (ties: alphabetical). For runaway
// recursion the innermost frame differs from sample to sample, the dominant one does not.
func DominantSite(dump string) string {
	count := map[string]int{}
	for _, line := range strings.Split(dump, "\n") {
		line = strings.TrimSpace(line)
		if !strings.HasPrefix(line, "github.com/semihalev/twig.") {
			continue
		}
		name := strings.TrimPrefix(line, "github.com/semihalev/twig.")
		if i := strings.LastIndex(name, "("); i >= 0 {
			name = name[:i]
		}
		count[strings.TrimSuffix(name, "(...)")]++
	}
	best, bn := "unknown", 0
	for n, c := range count {
		if c > bn || (c == bn && n < best) {
			best, bn = n, c
		}
	}
	return best
}

// Guard runs f and converts a panic into (site, value, stack).
func Guard(f func()) (panicked bool, site, val, stack string) {
	defer func() {
		if x := recover(); x != nil {
			buf := make([]byte, 1<<16)
			n := runtime.Stack(buf, false)
			stack = string(buf[:n])
			// drop the frames above the panic call (Guard's deferred func, runtime.gopanic)
			if i := strings.Index(stack, "panic("); i >= 0 {
				stack = stack[i:]
			}
			panicked, site, val = true, PanicSite(stack), fmt.Sprint(x)
		}
	}()
	f()
	return
}

// ---------------------------------------------------------------- known findings

type Finding struct {
	Status   string `json:"status"` // "known" | "fixed"
	Property string `json:"property"`
	Sig      string `json:"signature,omitempty"`
	What     string `json:"what"`
	Commit   string `json:"commit,omitempty"`
	Replay   string `json:"replay,omitempty"`
}

func LoadFindings(path string) ([]Finding, error) {
	b, err := os.ReadFile(path)
	if err != nil {
		if os.IsNotExist(err) {
			return nil, nil
		}
		return nil, err
	}
	var fs []Finding
	if err := json.Unmarshal(b, &fs); err != nil {
		return nil, err
	}
	return fs, nil
}

// Known returns the matching *known* (never fixed) entry for a violation.
func Known(fs []Finding, prop, sig string) *Finding {
	for i := range fs {
		if fs[i].Status == "known" && fs[i].Property == prop && fs[i].Sig == sig {
			return &fs[i]
		}
	}
	return nil
}

// ---------------------------------------------------------------- small helpers

func Trunc(s string, n int) string {
	if len(s) <= n {
		return s
	}
	return s[:n] + fmt.Sprintf("…(+%d bytes)", len(s)-n)
}

func Q(s string) string { return fmt.Sprintf("%q", s) }

var _ = twigFrame
var _ = twigFrameSimple
